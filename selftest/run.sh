#!/bin/sh
# Must-fail corpus: every patch must (a) compile, (b) make at least one obligation matching its
# "expect" line fail to discharge.  Scratch copies live under mktemp -d and are removed.
export GOFLAGS=-mod=mod GOPROXY=off GOSUMDB=off GOTOOLCHAIN=local
cd /verif/selftest
fail=0; n=0
for p in ${@:-*.patch}; do
  n=$((n+1))
  funcs=$(sed -n 's/^# functions: //p' $p); expect=$(sed -n 's/^# expect: //p' $p)
  d=$(mktemp -d); cp -r /repo/. $d/; rm -rf $d/.git
  if ! (cd $d && patch -s -p1 < /verif/selftest/$p); then echo "SELFTEST $p: patch does not apply"; fail=1; rm -rf $d; continue; fi
  if ! (cd $d && go build ./... 2>/dev/null); then echo "SELFTEST $p: does not compile"; fail=1; rm -rf $d; continue; fi
  out=$(GOVC_REPO=$d /verif/bin/govc verify "$funcs" -nocache -t 5 2>&1)
  if echo "$out" | grep -E '^(failed|unknown|ERROR)' | grep -Eq "$expect"; then
    echo "SELFTEST $p: caught ($(echo "$out" | grep -E '^(failed|unknown)' | grep -E "$expect" | head -1 | awk '{print $1, $2}'))"
  else
    echo "SELFTEST $p: SURVIVED (expected a failure matching $expect)"; echo "$out" | tail -3; fail=1
  fi
  rm -rf $d
done
echo "selftest: $n patches, fail=$fail"
exit $fail
