#!/bin/sh
# mk.sh <name> <file> <sed-expr> <functions-regexp> <expected-obligation-regexp> [property]
# creates selftest/<name>.patch from a sed expression applied to /repo/<file>
set -e
name=$1; file=$2; expr=$3; funcs=$4; expect=$5; prop=$6
d=$(mktemp -d)
mkdir -p $d/a/$(dirname $file) $d/b/$(dirname $file)
cp /repo/$file $d/a/$file
sed "$expr" /repo/$file > $d/b/$file
if cmp -s $d/a/$file $d/b/$file; then echo "mk.sh: $name: sed expression changed nothing" >&2; rm -rf $d; exit 1; fi
{
  echo "# functions: $funcs"
  echo "# expect: $expect"
  echo "# property: $prop"
  (cd $d && diff -u a/$file b/$file) || true
} > /verif/selftest/$name.patch
rm -rf $d
