package main

// Calls: builtins, static calls by contract, interface dispatch, externals,
// function values, defer.

import (
	"fmt"
	"go/types"
	"os"
	"strings"

	"golang.org/x/tools/go/ssa"
)

func (vc *VC) execCall(instr ssa.Instruction, c *ssa.CallCommon, h *Heap, reach *string) []Term {
	if b, ok := c.Value.(*ssa.Builtin); ok && !c.IsInvoke() {
		return vc.execBuiltin(b, c, h, *reach)
	}
	if c.IsInvoke() {
		return vc.execInvoke(c, h, reach)
	}
	var args []Term
	argv := func() []Term {
		if args == nil {
			for _, a := range c.Args {
				args = append(args, vc.argValue(a, h, *reach))
			}
		}
		return args
	}
	switch callee := c.Value.(type) {
	case *ssa.Function:
		if callee.Pkg != nil && isModulePkg(callee.Pkg.Pkg) && len(callee.Blocks) > 0 {
			return vc.applyContract(callee, argv(), h, reach, "")
		}
		return vc.execExternal(callee, c, h, *reach)
	case *ssa.MakeClosure:
		fn := callee.Fn.(*ssa.Function)
		_ = fn
		return vc.dynamicCall(c, h, reach)
	default:
		return vc.dynamicCall(c, h, reach)
	}
}

// argument value; addresses of locals passed to callees are passed as refs when possible
func (vc *VC) argValue(a ssa.Value, h *Heap, reach string) Term {
	if ad, ok := vc.addrs[a]; ok {
		_ = ad
	}
	return vc.value(a)
}

func (vc *VC) resultTerms(sig *types.Signature, h *Heap, reach string, hint string) []Term {
	var res []Term
	for i := 0; i < sig.Results().Len(); i++ {
		t := sig.Results().At(i).Type()
		s := vc.u.sortOf(t)
		r := mk(vc.fresh(hint+"_r", s), s).withType(t)
		vc.assume("true", vc.allocated(h, r))
		res = append(res, r)
	}
	return res
}

// havoc the components a callee may modify; returns the post heap (h is updated in place)
func (vc *VC) havocFor(h *Heap, ms *ModSet) {
	a0 := vc.get(h, "$alloc")
	if ms.All {
		vc.havocAll(h)
		return
	}
	for _, c := range sortedKeys(ms.Old) {
		if _, ok := vc.compSort[c]; !ok {
			continue
		}
		vc.havoc(h, c)
	}
	// Components the callee writes only at objects it allocates itself keep their version: the part
	// of a component above the caller's allocation watermark is unconstrained anyway, so "same version"
	// and "new version equal below the watermark" describe the same set of states.
	a1 := vc.fresh("$alloc", SInt)
	vc.emit(fmt.Sprintf("(assert (>= %s %s))", a1, a0))
	h.m["$alloc"] = a1
	vc.flushWf(h)
}

// declare the components in the callee's modset so havocFor sees them
func (vc *VC) declareModSet(ms *ModSet) {
	for c, s := range ms.Sorts {
		vc.importSort(s)
		vc.compDecl(c, s)
		if t, ok := ms.Types[c]; ok {
			vc.compType[c] = t
		}
	}
}

func (vc *VC) applyContract(callee *ssa.Function, args []Term, h *Heap, reach *string, guard string) []Term {
	r := *reach
	if guard != "" {
		r = and(r, guard)
	}
	res, post := vc.applyContractOn(callee, args, h, r)
	if guard != "" {
		vc.mergeGuarded(h, post, guard)
	} else {
		*h = *post
	}
	return res
}

// applyContractOn applies the callee's contract in state pre (not modified) and returns the post state.
func (vc *VC) applyContractOn(callee *ssa.Function, args []Term, preIn *Heap, r string) ([]Term, *Heap) {
	rOverride := ""
	defer func() {
		if rOverride != "" {
			vc.lastCallReach = rOverride
		}
	}()
	c := vc.prog.contractFor(callee)
	key := vc.prog.keyOf[callee]
	if key == "" {
		key = callee.String()
	}
	if c == nil && vc.inlinable(callee) {
		// a small helper without a contract is checked as part of its caller (its body is executed in place):
		// extracting a helper from a function under contract neither weakens nor breaks the caller's proof
		post := preIn.clone()
		rr := r
		res := vc.inlineCall(callee, args, post, &rr)
		rOverride = rr
		vc.inlined[key] = true
		return res, post
	}
	pre := preIn.clone()
	env := &Env{vc: vc, vars: map[string]Term{}, cur: pre, old: pre, pkg: callee.Pkg.Pkg}
	vc.bindParams(env, c, callee, args)
	if callee.Signature.Recv() != nil && len(args) > 0 {
		ow := args[0]
		ow.T = callee.Params[0].Type()
		env.vars["owner"] = ow // for clauses inherited from a typed contract ("implements")
	}
	label := shortKey(key)
	// receiver non-nil
	if callee.Signature.Recv() != nil && len(args) > 0 {
		if _, ok := callee.Params[0].Type().Underlying().(*types.Pointer); ok {
			vc.nonNilCheck(args[0].S, r, "nil receiver in call of "+label)
			vc.assume(r, not(eq(args[0].S, "0")))
		}
	}
	if c != nil && callee == vc.fn && c.Decreases != nil {
		// recursion: the measure is non-negative at entry and strictly smaller at the recursive call
		cur, err := env.evalTerm(c.Decreases.Expr)
		if err != nil {
			panic(evalError{"decreases: " + err.Error()})
		}
		ent, err := vc.entryEnv().evalTerm(c.Decreases.Expr)
		if err != nil {
			panic(evalError{"decreases: " + err.Error()})
		}
		k := vc.counter("recursion")
		vc.oblige("decreases", fmt.Sprintf("recursion.decreases.%d", k), c.Decreases.Tags, r, and(app("<=", "0", ent.S), app("<", cur.S, ent.S)), c.Decreases.Src)
	}
	if c != nil {
		c.Used = true
		k := vc.counter("call." + label)
		for i, cl := range c.Requires {
			s, err := env.evalBool(cl.Expr)
			if err != nil {
				panic(evalError{fmt.Sprintf("requires of %s: %v", key, err)})
			}
			vc.oblige("call-requires", fmt.Sprintf("call.%s.%s.%d", label, c.clauseName(cl, i), k), vc.safetyTags(), r, implies(and(env.lastFacts...), s), cl.Src)
			vc.assume(r, and(append(append([]string{}, env.lastFacts...), s)...))
		}
		switch c.PanicsMode {
		case "never":
		case "when":
			s, err := env.evalBool(c.PanicsWhen.Expr)
			if err != nil {
				panic(evalError{fmt.Sprintf("panics-when of %s: %v", key, err)})
			}
			vc.assume(r, and(env.lastFacts...))
			vc.check("call."+label, r, not(s), "callee "+label+" panics when "+c.PanicsWhen.Src)
		default:
			if vc.fn.Recover != nil && vc.panicking == "" {
				pf := vc.fresh("callee_panics", SBool)
				vc.panicPath(preIn, and(r, pf), vc.prog.modset(callee), c, env)
				r = vc.define("no_panic", SBool, and(r, not(pf)))
				rOverride = r
			} else if vc.contract != nil && len(vc.contract.OnPanic) > 0 && !vc.inPanicExit {
				// the callee may panic: this function is then left by that panic, in the state the callee
				// leaves behind (anything it may modify, constrained by its own exceptional postconditions)
				pf := vc.fresh("callee_panics", SBool)
				hp := preIn.clone()
				ms := vc.prog.modset(callee)
				vc.declareModSet(ms)
				vc.havocFor(hp, ms)
				vc.assumeOnPanic(c, env, preIn, hp, and(r, pf))
				vc.onPanicExit(hp, and(r, pf), "call."+label)
				r = vc.define("no_panic", SBool, and(r, not(pf)))
				rOverride = r
			} else {
				vc.safety("call."+label, r, "false", "callee "+label+" has no panic-freedom contract")
			}
		}
		if c.Trusted != "" {
			vc.trusted[key+": "+c.Trusted] = true
		}
	} else {
		vc.calleesNoContract[key] = true
		vc.safety("call."+label, r, "false", "callee "+label+" has no contract")
	}
	ms := vc.prog.modset(callee)
	vc.declareModSet(ms)
	if c != nil && c.HasModifies && ms.All {
		// an explicit modifies clause (verified against the body, or trusted) replaces an inferred
		// "may write anything": only the named components can change at existing locations
		allowed := vc.modifiesItems(env, c)
		ms2 := newModSet()
		for comp := range allowed {
			ms2.Old[comp] = true
		}
		ms2.FreshAll = true
		ms2.Old["Gcalls_n"], ms2.Old["Gcalls_fn"], ms2.Old["Gcalls_args"] = true, true, true
		vc.callLogDecl()
		ms = ms2
	}
	post := pre.clone()
	vc.havocFor(post, ms)
	res := vc.resultTerms(callee.Signature, post, r, label)
	if c != nil && strings.HasPrefix(c.Props["records"], "arg ") {
		// ghost: the value of the named parameter at the latest call of this function
		pn := strings.Fields(c.Props["records"])[1]
		if t, ok := env.vars[pn]; ok {
			g := "Garg_" + sanitize(callee.Name())
			vc.compDecl(g, t.Sort)
			vc.set(post, g, t.S)
		}
	} else if c != nil && c.Props["records"] != "" && len(res) > 0 {
		// ghost: the first result of the latest call of this function
		g := "Gres_" + sanitize(callee.Name())
		vc.compDecl(g, res[0].Sort)
		vc.set(post, g, res[0].S)
	}
	if c != nil {
		// frame from an explicit modifies clause
		if c.HasModifies {
			allowed := vc.modifiesItems(env, c)
			a0 := vc.get(pre, "$alloc")
			for _, comp := range sortedKeys(ms.Old) {
				s, ok := vc.compSort[comp]
				if !ok || isGhostComp(comp) {
					continue
				}
				nw, od := vc.get(post, comp), vc.get(pre, comp)
				if !strings.HasPrefix(s, "(Array Int ") {
					if allowed[comp] == nil {
						vc.assume("true", eq(nw, od))
					}
					continue
				}
				star := false
				var excl []string
				for _, rr := range allowed[comp] {
					if rr == "*" {
						star = true
					}
					excl = append(excl, not(allowedCond(rr, "r")))
				}
				if star {
					continue
				}
				vc.emit(fmt.Sprintf("(assert (forall ((r Int)) (! %s :pattern ((select %s r)))))", implies(and(append([]string{app("<=", "r", a0)}, excl...)...), eq(app("select", nw, "r"), app("select", od, "r"))), nw))
			}
		}
		env2 := *env
		env2.cur = post
		env2.old = pre
		env2.vars = map[string]Term{}
		for k, v := range env.vars {
			env2.vars[k] = v
		}
		for i, rt := range res {
			if i == 0 {
				env2.vars["result"] = rt
			}
			if i < len(c.ResultNames) && c.ResultNames[i] != "" {
				env2.vars[c.ResultNames[i]] = rt
			}
		}
		for _, cl := range c.Ensures {
			s, err := env2.evalAssume(cl.Expr)
			if err != nil {
				panic(evalError{fmt.Sprintf("ensures of %s: %v", key, err)})
			}
			vc.curTags = cl.Tags
			vc.assume(r, s)
			vc.curTags = nil
		}
	}
	return res, post
}

// h := guard ? post : h
func (vc *VC) mergeGuarded(h, post *Heap, guard string) {
	comps := map[string]bool{}
	for c := range h.m {
		comps[c] = true
	}
	for c := range post.m {
		comps[c] = true
	}
	if post.epoch != h.epoch {
		// a havoc-everything happened under the guard: conservatively havoc everything
		vc.havocAll(h)
		return
	}
	for _, c := range sortedKeys(comps) {
		a, b := vc.get(post, c), vc.get(h, c)
		if a != b {
			h.m[c] = vc.define(c, vc.compSort[c], ite(guard, a, b))
		}
	}
}

func shortKey(k string) string { return k }

// ---- interface dispatch ----------------------------------------------------

func (vc *VC) execInvoke(c *ssa.CallCommon, h *Heap, reach *string) []Term {
	recv := vc.value(c.Value)
	it := c.Value.Type().Underlying().(*types.Interface)
	var args []Term
	for _, a := range c.Args {
		args = append(args, vc.value(a))
	}
	mname := c.Method.Name()
	vc.check("nilcall", *reach, not(eq(app("i.tag", recv.S), "0")), "method call on nil interface ("+mname+")")
	impls := vc.prog.implementers(it, mname)
	if len(impls) == 0 {
		return vc.execExternalMethod(c, recv, args, h, *reach)
	}
	sig := c.Signature()
	nres := sig.Results().Len()
	type branch struct {
		guard string
		res   []Term
		post  *Heap
	}
	h0 := h.clone()
	var brs []branch
	var guards []string
	for _, im := range impls {
		g := vc.define("is_"+sanitize(types.TypeString(im.T, nil)), SBool, eq(app("i.tag", recv.S), fmt.Sprint(vc.u.tagOf(im.T))))
		guards = append(guards, g)
		var self Term
		if isPointerLike(im.T) {
			self = mk(app("i.val", recv.S), SInt).withType(im.T)
		} else {
			self = vc.u.unbox(im.T, app("i.val", recv.S))
		}
		// the method may be declared on the value type while the dynamic type is the pointer
		fnRecvT := im.Fn.Params[0].Type()
		if !types.Identical(fnRecvT, im.T) {
			if p, ok := im.T.(*types.Pointer); ok && types.Identical(p.Elem(), fnRecvT) {
				vc.check("nil", and(*reach, g), not(eq(self.S, "0")), "nil pointer in interface, value-receiver method "+mname)
				self = vc.loadPtr(h0, self, and(*reach, g), false)
			}
		}
		vc.viaDispatch++
		res, post := vc.applyContractOn(im.Fn, append([]Term{self}, args...), h0, and(*reach, g))
		vc.viaDispatch--
		brs = append(brs, branch{g, res, post})
	}
	for i := len(brs) - 1; i >= 0; i-- {
		if i == len(brs)-1 {
			*h = *brs[i].post
			continue
		}
		vc.mergeGuarded(h, brs[i].post, brs[i].guard)
	}
	vc.assume(*reach, or(guards...))
	vc.assumptions["closed-world: dynamic types of "+types.TypeString(c.Value.Type(), nil)+" values are the module's implementers"] = true
	out := make([]Term, nres)
	for i := 0; i < nres; i++ {
		t := sig.Results().At(i).Type()
		s := vc.u.sortOf(t)
		term := brs[len(brs)-1].res[i].S
		for j := len(brs) - 2; j >= 0; j-- {
			term = ite(brs[j].guard, brs[j].res[i].S, term)
		}
		out[i] = mk(vc.define("inv_"+mname, s, term), s).withType(t)
	}
	return out
}

// ---- function values --------------------------------------------------------

func (vc *VC) dynamicCall(c *ssa.CallCommon, h *Heap, reach *string) []Term {
	fv := vc.value(c.Value)
	var args []Term
	for _, a := range c.Args {
		args = append(args, vc.value(a))
	}
	sig := c.Signature()
	tc := vc.prog.typedContract(c.Value.Type())
	vc.checkNonNil(fv.S, *reach, "call of nil function value")
	if tc == nil {
		vc.safety("dyncall", *reach, "false", "call through a function value without typed contract")
		vc.havocAll(h)
		vc.assumptions["function value of type "+types.TypeString(c.Value.Type(), nil)+" has no typed contract: everything havocked"] = true
		return vc.resultTerms(sig, h, *reach, "dyn")
	}
	tc.Used = true
	pre := h.clone()
	env := &Env{vc: vc, vars: map[string]Term{}, cur: pre, old: pre, pkg: vc.fn.Pkg.Pkg}
	for i, n := range tc.ParamNames {
		if i < len(args) {
			t := args[i]
			t.T = sig.Params().At(i).Type()
			env.vars[n] = t
		}
	}
	// "owner": the object whose field (a map or a plain field) the function value was loaded from
	if ow, ok := vc.ownerOf(c.Value); ok {
		env.vars["owner"] = ow
	}
	k := vc.counter("call.typed." + tc.Typed)
	for i, cl := range tc.Requires {
		s, err := env.evalBool(cl.Expr)
		if err != nil {
			panic(evalError{fmt.Sprintf("requires of typed %s: %v", tc.Typed, err)})
		}
		vc.oblige("call-requires", fmt.Sprintf("call.typed.%s.%s.%d", tc.Typed, tc.clauseName(cl, i), k), vc.safetyTags(), *reach, implies(and(env.lastFacts...), s), cl.Src)
		vc.assume(*reach, and(append(append([]string{}, env.lastFacts...), s)...))
	}
	if tc.PanicsMode != "never" {
		vc.safety("call.typed."+tc.Typed, *reach, "false", "function value of type "+tc.Typed+" may panic")
	}
	ms := vc.prog.typedModSet(vc, tc)
	vc.declareModSet(ms)
	vc.havocFor(h, ms)
	// ghost call log
	vc.callLogDecl()
	nc := vc.get(h, "Gcalls_n")
	vc.set(h, "Gcalls_fn", app("store", vc.get(h, "Gcalls_fn"), nc, fv.S))
	if len(args) > 0 && args[0].Sort == SSlice {
		vc.set(h, "Gcalls_args", app("store", vc.get(h, "Gcalls_args"), nc, args[0].S))
	}
	vc.set(h, "Gcalls_n", app("+", nc, "1"))
	res := vc.resultTerms(sig, h, *reach, "dyn")
	env.cur = h
	for i, rt := range res {
		if i == 0 {
			env.vars["result"] = rt
		}
		if i < len(tc.ResultNames) && tc.ResultNames[i] != "" {
			env.vars[tc.ResultNames[i]] = rt
		}
	}
	for _, cl := range tc.Ensures {
		s, err := env.evalAssume(cl.Expr)
		if err != nil {
			panic(evalError{fmt.Sprintf("ensures of typed %s: %v", tc.Typed, err)})
		}
		vc.assume(*reach, s)
	}
	vc.assumptions["typed contract "+tc.Typed+" is assumed for host-supplied functions"] = true
	return res
}

// ---- builtins -----------------------------------------------------------------

func (vc *VC) execBuiltin(b *ssa.Builtin, c *ssa.CallCommon, h *Heap, reach string) []Term {
	switch b.Name() {
	case "len", "cap":
		x := vc.value(c.Args[0])
		var t string
		switch tt := c.Args[0].Type().Underlying().(type) {
		case *types.Slice:
			t = app("s."+b.Name(), x.S)
		case *types.Basic:
			t = app("gs.len", x.S)
		case *types.Map:
			vc.compDecl("Msize", "(Array Int Int)")
			t = ite(eq(x.S, "0"), "0", app("select", vc.get(h, "Msize"), x.S))
		case *types.Array:
			t = fmt.Sprint(tt.Len())
		case *types.Pointer:
			t = fmt.Sprint(tt.Elem().Underlying().(*types.Array).Len())
		case *types.Chan:
			t = vc.fresh("chanlen", SInt)
		default:
			panic(unsupportedErr("len of " + c.Args[0].Type().String()))
		}
		return []Term{mk(vc.define(b.Name(), SInt, t), SInt).withType(types.Typ[types.Int])}
	case "append":
		return []Term{vc.execAppend(c, h, reach)}
	case "copy":
		dst := vc.value(c.Args[0])
		src := vc.value(c.Args[1])
		n := vc.define("copyn", SInt, ite(app("<", app("s.len", dst.S), app("s.len", src.S)), app("s.len", dst.S), app("s.len", src.S)))
		if src.Sort == SStr {
			panic(unsupportedErr("copy from string"))
		}
		et := c.Args[0].Type().Underlying().(*types.Slice).Elem()
		comp, es := vc.elemComp(et)
		e0 := vc.get(h, comp)
		row := vc.fresh("copyrow", fmt.Sprintf("(Array Int %s)", es))
		drow := app("select", e0, app("s.arr", dst.S))
		srow := app("select", e0, app("s.arr", src.S))
		vc.emit(fmt.Sprintf("(assert (forall ((j Int)) (! (= (select %s j) (ite (and (<= %s j) (< j (+ %s %s))) (select %s (+ (- j %s) %s)) (select %s j))) :pattern ((select %s j)))))",
			row, app("s.off", dst.S), app("s.off", dst.S), n, srow, app("s.off", dst.S), app("s.off", src.S), drow, row))
		vc.set(h, comp, app("store", e0, app("s.arr", dst.S), row))
		return []Term{mk(n, SInt).withType(types.Typ[types.Int])}
	case "delete":
		m := vc.value(c.Args[0])
		k := vc.value(c.Args[1])
		mt := c.Args[0].Type().Underlying().(*types.Map)
		has, _, _, _ := vc.mapComps(mt)
		hasRow := app("select", vc.get(h, has), m.S)
		was := app("select", hasRow, k.S)
		nz := not(eq(m.S, "0"))
		vc.set(h, "Msize", ite(nz, app("store", vc.get(h, "Msize"), m.S, app("-", app("select", vc.get(h, "Msize"), m.S), ite(was, "1", "0"))), vc.get(h, "Msize")))
		vc.set(h, has, ite(nz, app("store", vc.get(h, has), m.S, app("store", hasRow, k.S, "false")), vc.get(h, has)))
		return nil
	case "recover":
		// non-nil exactly when the deferred call runs because of a panic
		r := vc.fresh("recovered", SIface)
		pan := vc.panicking
		if pan == "" {
			pan = "false"
		}
		vc.emit(fmt.Sprintf("(assert (= %s (not (= (i.tag %s) 0))))", pan, r))
		vc.emit(fmt.Sprintf("(assert (=> (= (i.tag %s) 0) (= (i.val %s) 0)))", r, r))
		return []Term{mk(r, SIface)}
	case "print", "println":
		return nil
	case "panic":
		vc.safety("explicit", reach, "false", "panic()")
		return nil
	}
	panic(unsupportedErr("builtin " + b.Name()))
}

func (vc *VC) execAppend(c *ssa.CallCommon, h *Heap, reach string) Term {
	s := vc.value(c.Args[0])
	t := vc.value(c.Args[1])
	st := c.Args[0].Type().Underlying().(*types.Slice)
	comp, es := vc.elemComp(st.Elem())
	rowSort := fmt.Sprintf("(Array Int %s)", es)
	e0 := vc.get(h, comp)
	var n string
	var srcAt func(j string) string
	if t.Sort == SStr {
		n = app("gs.len", t.S)
		bytes := app(vc.u.ufun("gs.bytes", []Sort{SStr}, "(Array Int Int)"), t.S)
		srcAt = func(j string) string { return app("select", bytes, j) }
	} else {
		n = app("s.len", t.S)
		trow := app("select", e0, app("s.arr", t.S))
		srcAt = func(j string) string { return app("select", trow, app("+", app("s.off", t.S), j)) }
	}
	// statically known element count (append(s, v) packs v in a fresh [1]T array)
	known := -1
	if sl, ok := c.Args[1].(*ssa.Slice); ok {
		if al, ok := sl.X.(*ssa.Alloc); ok && sl.Low == nil && sl.High == nil {
			if at, ok := al.Type().Underlying().(*types.Pointer).Elem().Underlying().(*types.Array); ok && at.Len() <= 8 {
				known = int(at.Len())
			}
		}
	}
	if cst, ok := c.Args[1].(*ssa.Const); ok && cst.Value == nil {
		known = 0
	}
	ln := vc.define("app_len", SInt, app("s.len", s.S))
	nn := vc.define("app_n", SInt, n)
	if known >= 0 {
		nn = fmt.Sprint(known)
	}
	fits := vc.define("app_fits", SBool, app("<=", app("+", ln, nn), app("s.cap", s.S)))
	if unsharedLocalSlice(c.Args[0]) {
		// a local accumulator nobody else can see: in place or reallocated makes no observable difference
		fits = "false"
		vc.assumptions["append to a slice that is local to the function and never stored, passed on or re-sliced is modelled as reallocating (indistinguishable from appending in place)"] = true
	} else {
		vc.noteSplit(fits)
	}
	srow := app("select", e0, app("s.arr", s.S))
	// in-place row
	var inplace string
	if known >= 0 {
		inplace = srow
		for j := 0; j < known; j++ {
			inplace = app("store", inplace, app("+", app("s.off", s.S), ln, fmt.Sprint(j)), srcAt(fmt.Sprint(j)))
		}
	} else {
		inplace = vc.fresh("app_row", rowSort)
		base := app("+", app("s.off", s.S), ln)
		vc.emit(fmt.Sprintf("(assert (forall ((j Int)) (! (= (select %s j) (ite (and (<= %s j) (< j (+ %s %s))) %s (select %s j))) :pattern ((select %s j)))))",
			inplace, base, base, nn, srcAt(app("-", "j", base)), srow, inplace))
	}
	// reallocated row
	fr := vc.newRef(h, "app_arr")
	newrow := vc.fresh("app_new", rowSort)
	vc.emit(fmt.Sprintf("(assert (forall ((j Int)) (! (=> (and (<= 0 j) (< j %s)) (= (select %s j) (select %s (+ %s j)))) :pattern ((select %s j)))))",
		ln, newrow, srow, app("s.off", s.S), newrow))
	if known >= 0 {
		for j := 0; j < known; j++ {
			vc.emit(fmt.Sprintf("(assert (= (select %s (+ %s %d)) %s))", newrow, ln, j, srcAt(fmt.Sprint(j))))
		}
	} else {
		vc.emit(fmt.Sprintf("(assert (forall ((j Int)) (! (=> (and (<= 0 j) (< j %s)) (= (select %s (+ %s j)) %s)) :pattern ((select %s (+ %s j))))))",
			nn, newrow, ln, srcAt("j"), newrow, ln))
	}
	ncap := vc.fresh("app_cap", SInt)
	vc.emit(fmt.Sprintf("(assert (>= %s (+ %s %s)))", ncap, ln, nn))
	vc.set(h, comp, ite(fits, app("store", e0, app("s.arr", s.S), inplace), app("store", e0, fr, newrow)))
	res := ite(fits, app("mk-slice", app("s.arr", s.S), app("s.off", s.S), app("+", ln, nn), app("s.cap", s.S)),
		app("mk-slice", fr, "0", app("+", ln, nn), ncap))
	return mk(vc.define("app_res", SSlice, res), SSlice).withType(c.Args[0].Type())
}

// ---- defer, panics, recover -----------------------------------------------------------

// execRunDefers runs the deferred calls (last first).  Deferred closures are inlined.
func (vc *VC) execRunDefers(h *Heap, reach *string) {
	vc.runDefers(h, reach, "false")
}

func (vc *VC) runDefers(h *Heap, reach *string, panicking string) (recovered bool) {
	for i := len(vc.defers) - 1; i >= 0; i-- {
		d := vc.defers[i]
		// a deferred call executes only if its Defer instruction was reached
		db := d.Block()
		if db != vc.curBlock && !db.Dominates(vc.curBlock) {
			if !vc.ancestors(vc.curBlock)[db.Index] {
				continue // this exit is not reachable from the defer statement: the call was never deferred
			}
			// a defer statement on some paths only: the call runs exactly when its block was passed
			g, ok := vc.blockReach[db]
			if !ok {
				panic(unsupportedErr("conditional defer in a block without a path condition"))
			}
			if _, isClosure := d.Call.Value.(*ssa.MakeClosure); isClosure {
				panic(unsupportedErr("conditional defer of a closure"))
			}
			h2 := h.clone()
			r2 := and(*reach, g)
			vc.execCall(d, d.Common(), h2, &r2)
			vc.mergeGuarded(h, h2, g)
			continue
		}
		if mc, ok := d.Call.Value.(*ssa.MakeClosure); ok {
			fn := mc.Fn.(*ssa.Function)
			if vc.inlineClosure(fn, mc, h, reach, panicking) {
				recovered = true
			}
			continue
		}
		vc.execCall(d, d.Common(), h, reach)
	}
	return recovered
}

// inlineClosure executes the body of a (loop-free, parameterless) deferred closure in place.
// It reports whether the body calls recover().
func (vc *VC) inlineClosure(fn *ssa.Function, mc *ssa.MakeClosure, h *Heap, reach *string, panicking string) bool {
	if len(fn.Params) != 0 || len(vc.prog.loopHeaders(fn)) != 0 {
		panic(unsupportedErr("deferred closure with parameters or loops"))
	}
	for i, fv := range fn.FreeVars {
		vc.vals[fv] = vc.value(mc.Bindings[i])
		if a, ok := vc.addrs[mc.Bindings[i]]; ok {
			vc.addrs[fv] = a
		}
	}
	callsRecover := false
	for _, b := range fn.Blocks {
		for _, in := range b.Instrs {
			if c, ok := in.(*ssa.Call); ok {
				if bi, ok := c.Call.Value.(*ssa.Builtin); ok && bi.Name() == "recover" {
					callsRecover = true
				}
			}
		}
	}
	saveFn, saveBlock, savePan := vc.fn, vc.curBlock, vc.panicking
	saveTag := vc.tagBlock
	if vc.tagBlock == nil {
		vc.tagBlock = vc.curBlock // lines of the inlined body belong to the block that runs the defers
	}
	vc.panicking = panicking
	defer func() { vc.fn, vc.curBlock, vc.panicking, vc.tagBlock = saveFn, saveBlock, savePan, saveTag }()
	// straight-line execution of an acyclic CFG with merges
	type st struct {
		reach string
		h     *Heap
	}
	in := map[*ssa.BasicBlock][]st{}
	in[fn.Blocks[0]] = []st{{*reach, h.clone()}}
	var exits []st
	order := rpo(fn)
	for _, b := range order {
		ins := in[b]
		if len(ins) == 0 {
			continue
		}
		var r string
		var hb *Heap
		if len(ins) == 1 {
			r, hb = ins[0].reach, ins[0].h
		} else {
			var rs []string
			for _, x := range ins {
				rs = append(rs, x.reach)
			}
			r = vc.define("inl_reach", SBool, or(rs...))
			hb = ins[len(ins)-1].h.clone()
			for i := len(ins) - 2; i >= 0; i-- {
				vc.mergeGuarded(hb, ins[i].h, ins[i].reach)
			}
		}
		cur := r
		for _, instr := range b.Instrs {
			switch x := instr.(type) {
			case *ssa.Phi:
				panic(unsupportedErr("phi in deferred closure"))
			case *ssa.If:
				c := vc.value(x.Cond).S
				in[b.Succs[0]] = append(in[b.Succs[0]], st{vc.define("inl_edge", SBool, and(cur, c)), hb.clone()})
				in[b.Succs[1]] = append(in[b.Succs[1]], st{vc.define("inl_edge", SBool, and(cur, not(c))), hb.clone()})
			case *ssa.Jump:
				in[b.Succs[0]] = append(in[b.Succs[0]], st{cur, hb.clone()})
			case *ssa.Return:
				exits = append(exits, st{cur, hb})
			default:
				cur = vc.execInstr(b, instr, hb, cur)
			}
		}
	}
	if len(exits) == 0 {
		return callsRecover
	}
	out := exits[len(exits)-1].h.clone()
	for i := len(exits) - 2; i >= 0; i-- {
		vc.mergeGuarded(out, exits[i].h, exits[i].reach)
	}
	*h = *out
	return callsRecover
}

func rpo(fn *ssa.Function) []*ssa.BasicBlock {
	seen := map[*ssa.BasicBlock]bool{}
	var post []*ssa.BasicBlock
	var dfs func(b *ssa.BasicBlock)
	dfs = func(b *ssa.BasicBlock) {
		seen[b] = true
		for _, s := range b.Succs {
			if !seen[s] && !s.Dominates(b) {
				dfs(s)
			}
		}
		post = append(post, b)
	}
	dfs(fn.Blocks[0])
	for i, j := 0, len(post)-1; i < j; i, j = i+1, j-1 {
		post[i], post[j] = post[j], post[i]
	}
	return post
}

// panicPath: in a function with a recover block, a callee that may panic gives a second way on:
// the deferred calls run with recover() != nil and, if one of them recovers, control resumes in the
// function's recover block.
func (vc *VC) panicPath(h *Heap, reach string, ms *ModSet, callee *Contract, env *Env) {
	if vc.fn.Recover == nil {
		return
	}
	hp := h.clone()
	vc.declareModSet(ms)
	vc.havocFor(hp, ms)
	vc.assumeOnPanic(callee, env, h, hp, reach)
	r := reach
	if vc.runDefers(hp, &r, "true") {
		vc.recoverEdges = append(vc.recoverEdges, recoverEdge{r, hp})
	} else {
		// the panic leaves this function, after its deferred calls have run in hp
		vc.checkOnPanic(hp, r, "a panicking callee")
		save := vc.inPanicExit
		vc.inPanicExit = true // (the exit has just been judged in the callee's state, not in the caller's)
		vc.safety("panic-propagates", reach, "false", "a callee may panic and no deferred call recovers")
		vc.inPanicExit = save
	}
}

// ownerOf traces a function value back to the struct it was loaded from:
//
//	fv = m[k]  with  m = *(&x.field)      or      fv = *(&x.field)
func (vc *VC) ownerOf(v ssa.Value) (Term, bool) {
	if lk, ok := v.(*ssa.Lookup); ok {
		v = lk.X
	} else if ex, ok := v.(*ssa.Extract); ok {
		if lk, ok := ex.Tuple.(*ssa.Lookup); ok {
			v = lk.X
		}
	}
	ld, ok := v.(*ssa.UnOp)
	if !ok {
		return Term{}, false
	}
	fa, ok := ld.X.(*ssa.FieldAddr)
	if !ok {
		return Term{}, false
	}
	t, ok := vc.vals[fa.X]
	if !ok {
		return Term{}, false
	}
	t.T = fa.X.Type()
	return t, true
}

// assumeOnPanic: what a callee guarantees when it is left by a panic (its onpanic clauses), assumed in
// the state hp it leaves behind; pre is the state it was called in.
func (vc *VC) assumeOnPanic(c *Contract, env *Env, pre, hp *Heap, reach string) {
	if c == nil || env == nil || len(c.OnPanic) == 0 {
		return
	}
	e2 := *env
	e2.cur = hp
	e2.old = pre
	for _, cl := range c.OnPanic {
		s, err := e2.evalAssume(cl.Expr)
		if err != nil {
			panic(evalError{fmt.Sprintf("onpanic of %s: %v", c.Key, err)})
		}
		vc.assume(reach, s)
	}
}

// onPanicExit: this function is left by a panic in state h under path condition reach.  Its deferred
// calls run (none of them recovers: functions with a recover block take panicPath instead), and then
// its exceptional postconditions must hold.
func (vc *VC) onPanicExit(h *Heap, reach string, what string) {
	if vc.contract == nil || len(vc.contract.OnPanic) == 0 || vc.inPanicExit || reach == "false" {
		return
	}
	vc.inPanicExit = true
	defer func() { vc.inPanicExit = false }()
	hp := h.clone()
	r := reach
	if vc.runDefers(hp, &r, "true") {
		return // a deferred call recovers: the function is not left by this panic
	}
	vc.checkOnPanic(hp, r, what)
}

// checkOnPanic: the exceptional postconditions in state hp (deferred calls already run)
func (vc *VC) checkOnPanic(hp *Heap, r string, what string) {
	if vc.contract == nil || len(vc.contract.OnPanic) == 0 {
		return
	}
	env := vc.entryEnv()
	env.cur = hp
	env.old = vc.entryHeap
	k := vc.counter("onpanic")
	for i, cl := range vc.contract.OnPanic {
		s, err := env.evalGoal(cl.Expr)
		if err != nil {
			panic(evalError{fmt.Sprintf("onpanic %s: %v", vc.contract.clauseName(cl, i), err)})
		}
		vc.oblige("onpanic", fmt.Sprintf("onpanic.%s.%d", vc.contract.clauseName(cl, i), k), cl.Tags, r, s, cl.Src+"   [left by a panic at: "+what+"]")
	}
}

// inlinable: a module function without contract that is small, loop-free, defer-free and not already being
// inlined (no recursion)
func (vc *VC) inlinable(fn *ssa.Function) bool {
	if noInline || vc.viaDispatch > 0 || fn == nil || fn.Pkg == nil || !isModulePkg(fn.Pkg.Pkg) || len(fn.Blocks) == 0 || fn == vc.fn || vc.inlining[fn] || len(vc.inlining) >= 2 {
		return false
	}
	if fn.Recover != nil || len(vc.prog.loopHeaders(fn)) != 0 || len(fn.FreeVars) != 0 {
		return false
	}
	n := 0
	for _, b := range fn.Blocks {
		n += len(b.Instrs)
		for _, in := range b.Instrs {
			switch in.(type) {
			case *ssa.Defer, *ssa.Go, *ssa.Select, *ssa.Range, *ssa.Next:
				return false
			}
		}
	}
	return n <= 80
}

var noInline = os.Getenv("GOVC_NOINLINE") != ""

// inlineCall executes the body of fn in place: parameters are bound to the arguments, the acyclic control
// flow graph is walked in reverse post-order with states merged at joins, and the results of the return
// statements are merged into the results of the call.
func (vc *VC) inlineCall(fn *ssa.Function, args []Term, h *Heap, reach *string) []Term {
	if vc.inlining == nil {
		vc.inlining = map[*ssa.Function]bool{}
	}
	vc.inlining[fn] = true
	defer delete(vc.inlining, fn)
	for i, p := range fn.Params {
		if i < len(args) {
			t := args[i]
			t.T = p.Type()
			vc.vals[p] = t
		}
	}
	saveFn, saveBlock, saveTag := vc.fn, vc.curBlock, vc.tagBlock
	if vc.tagBlock == nil {
		vc.tagBlock = vc.curBlock
	}
	saveDefers := vc.defers
	vc.defers = nil
	defer func() { vc.fn, vc.curBlock, vc.tagBlock, vc.defers = saveFn, saveBlock, saveTag, saveDefers }()
	type st struct {
		reach string
		h     *Heap
		from  *ssa.BasicBlock
	}
	in := map[*ssa.BasicBlock][]st{}
	in[fn.Blocks[0]] = []st{{*reach, h.clone(), nil}}
	type exit struct {
		reach string
		h     *Heap
		res   []Term
	}
	var exits []exit
	for _, b := range rpo(fn) {
		ins := in[b]
		if len(ins) == 0 {
			continue
		}
		var r string
		var hb *Heap
		if len(ins) == 1 {
			r, hb = ins[0].reach, ins[0].h
		} else {
			var rs []string
			for _, x := range ins {
				rs = append(rs, x.reach)
			}
			r = vc.define("inl_reach", SBool, or(rs...))
			hb = ins[len(ins)-1].h.clone()
			for i := len(ins) - 2; i >= 0; i-- {
				vc.mergeGuarded(hb, ins[i].h, ins[i].reach)
			}
		}
		cur := r
		for _, instr := range b.Instrs {
			switch x := instr.(type) {
			case *ssa.Phi:
				// the value of the edge that was taken
				s := vc.u.sortOf(x.Type())
				term := ""
				for k := len(ins) - 1; k >= 0; k-- {
					idx := -1
					for pi, pb := range b.Preds {
						if pb == ins[k].from {
							idx = pi
						}
					}
					if idx < 0 {
						continue
					}
					v := vc.value(x.Edges[idx]).S
					if term == "" {
						term = v
					} else {
						term = ite(ins[k].reach, v, term)
					}
				}
				if term == "" {
					panic(unsupportedErr("phi without incoming edge in an inlined function"))
				}
				vc.vals[x] = mk(vc.define("inl_"+x.Name(), s, term), s).withType(x.Type())
			case *ssa.If:
				c := vc.value(x.Cond).S
				in[b.Succs[0]] = append(in[b.Succs[0]], st{vc.define("inl_edge", SBool, and(cur, c)), hb.clone(), b})
				in[b.Succs[1]] = append(in[b.Succs[1]], st{vc.define("inl_edge", SBool, and(cur, not(c))), hb.clone(), b})
			case *ssa.Jump:
				in[b.Succs[0]] = append(in[b.Succs[0]], st{cur, hb.clone(), b})
			case *ssa.Return:
				var res []Term
				for _, rv := range x.Results {
					res = append(res, vc.value(rv))
				}
				exits = append(exits, exit{cur, hb, res})
			case *ssa.Panic:
				vc.safety("explicit", cur, "false", "panic() in inlined "+fn.Name())
				cur = "false"
			default:
				vc.curBlock = saveBlock
				cur = vc.execInstr(b, instr, hb, cur)
			}
		}
	}
	if len(exits) == 0 {
		*reach = "false"
		return vc.resultTerms(fn.Signature, h, "false", "inl")
	}
	out := exits[len(exits)-1].h.clone()
	var rs []string
	for _, e := range exits {
		rs = append(rs, e.reach)
	}
	for i := len(exits) - 2; i >= 0; i-- {
		vc.mergeGuarded(out, exits[i].h, exits[i].reach)
	}
	*h = *out
	*reach = vc.define("inl_ret", SBool, or(rs...))
	n := fn.Signature.Results().Len()
	res := make([]Term, n)
	for i := 0; i < n; i++ {
		t := fn.Signature.Results().At(i).Type()
		s := vc.u.sortOf(t)
		term := exits[len(exits)-1].res[i].S
		for k := len(exits) - 2; k >= 0; k-- {
			term = ite(exits[k].reach, exits[k].res[i].S, term)
		}
		res[i] = mk(vc.define("inl_res", s, term), s).withType(t)
	}
	return res
}
