package main

// Trusted contracts for functions outside the module (standard library,
// subcommands).  Every entry used by a proof is listed in the evidence.

import (
	"fmt"
	"go/types"
	"regexp"
	"strings"

	"golang.org/x/tools/go/ssa"
)

type ExtSpec struct {
	Known     bool
	Pure      bool     // result is a function of the arguments; nothing is written
	NonNil    bool     // (first) result is non-nil
	HavocArgs bool     // may write through pointer/slice arguments
	HavocAll  bool     // may write anything reachable
	NoPanic   bool     // never panics for any argument
	Effects   []string // effects on the world outside the process
	Nondet    bool     // result is not a function of the arguments (clock, environment)
}

var extTable = map[string]ExtSpec{
	"fmt.Errorf":         {Known: true, NonNil: true, NoPanic: true},
	"errors.New":         {Known: true, NonNil: true, NoPanic: true},
	"fmt.Sprintf":        {Known: true, Pure: true, NoPanic: true},
	"fmt.Sprint":         {Known: true, Pure: true, NoPanic: true},
	"fmt.Printf":         {Known: true, NoPanic: true, Effects: []string{"stdout"}},
	"fmt.Println":        {Known: true, NoPanic: true, Effects: []string{"stdout"}},
	"fmt.Print":          {Known: true, NoPanic: true, Effects: []string{"stdout"}},
	"os.Getenv":          {Known: true, NoPanic: true, Nondet: true, Effects: []string{"env"}},
	"time.Now":           {Known: true, NoPanic: true, Nondet: true, Effects: []string{"clock"}},
	"time.LoadLocation":  {Known: true, NoPanic: true, Nondet: true, Effects: []string{"tzdb"}},
	"time.Unix":          {Known: true, Pure: true, NoPanic: true},
	"sort.Sort":          {Known: true, HavocArgs: true},
	"sort.Slice":         {Known: true, HavocArgs: true},
	"sort.Strings":       {Known: true, HavocArgs: true, NoPanic: true},
	"context.Background": {Known: true, Pure: true, NonNil: true, NoPanic: true},
	// derived contexts: new values, nothing existing is touched (a zero or negative duration is allowed)
	"context.WithTimeout":                   {Known: true, Nondet: true, NonNil: true, NoPanic: true},
	"context.WithCancel":                    {Known: true, Nondet: true, NonNil: true, NoPanic: true},
	"context.WithDeadline":                  {Known: true, Nondet: true, NonNil: true, NoPanic: true},
	"(*sync.Mutex).Lock":                    {Known: true, NoPanic: true},
	"(*sync.Mutex).Unlock":                  {Known: true, NoPanic: true}, // pairing with Lock is checked structurally (C11)
	"(*sync.RWMutex).Lock":                  {Known: true, NoPanic: true},
	"(*sync.RWMutex).Unlock":                {Known: true, NoPanic: true},
	"(*sync.RWMutex).RLock":                 {Known: true, NoPanic: true},
	"(*sync.RWMutex).RUnlock":               {Known: true, NoPanic: true},
	"(encoding/binary.bigEndian).Uint16":    {Known: true, Pure: true},
	"(encoding/binary.bigEndian).PutUint16": {Known: true, HavocArgs: true},
	"hash/fnv.New64a":                       {Known: true, NonNil: true, NoPanic: true},
	"math.Pow":                              {Known: true, Pure: true, NoPanic: true},
	// documented: no panics (In panics for a nil location only; LoadLocation yields a non-nil one when it reports no error)
	"(time.Time).In":        {Known: true, Pure: true, NoPanic: true},
	"(time.Time).Clock":     {Known: true, Pure: true, NoPanic: true},
	"(time.Time).Date":      {Known: true, Pure: true, NoPanic: true},
	"(time.Time).Weekday":   {Known: true, Pure: true, NoPanic: true},
	"(time.Time).Unix":      {Known: true, Pure: true, NoPanic: true},
	"(time.Weekday).String": {Known: true, Pure: true, NoPanic: true},
	// methods of a compiled expression (non-nil: cachedRegexp returns it only without error)
	"(*regexp.Regexp).MatchString": {Known: true, Pure: true, NoPanic: true},
	"(*regexp.Regexp).ReplaceAll":  {Known: true, Pure: true, NoPanic: true},
	"math.Sqrt":                    {Known: true, Pure: true, NoPanic: true},
	"regexp.Compile":               {Known: true, Pure: true, NoPanic: true},
	"regexp.MustCompile":           {Known: true, Pure: true},
	"reflect.ValueOf":              {Known: true, Pure: true, NoPanic: true},
	"reflect.Indirect":             {Known: true, Pure: true, NoPanic: true},
	"reflect.TypeOf":               {Known: true, Pure: true, NoPanic: true},
}

var purePkgs = map[string]bool{"strings": true, "strconv": true, "unicode": true, "unicode/utf8": true, "math": true, "bytes": true, "errors": true}

// methods of value-like external types are pure observers
var pureRecv = regexp.MustCompile(`^\((\*)?(time\.Time|time\.Location|time\.Month|time\.Weekday|time\.Duration|reflect\.Value|reflect\.rtype|reflect\.Kind|regexp\.Regexp|strings\.Builder|bytes\.Buffer)\)\.`)

func externalSpec(f *ssa.Function) ExtSpec {
	name := f.String()
	if es, ok := extTable[name]; ok {
		return es
	}
	if f.Pkg != nil && purePkgs[f.Pkg.Pkg.Path()] && f.Signature.Recv() == nil {
		// documented panics: negative counts, invalid bases
		switch name {
		case "strings.Repeat", "bytes.Repeat", "strconv.FormatInt", "strconv.FormatUint", "strconv.AppendInt":
			return ExtSpec{Known: true, Pure: true}
		}
		return ExtSpec{Known: true, Pure: true, NoPanic: true}
	}
	if m := pureRecv.FindStringSubmatch(name); m != nil {
		// Builder/Buffer writers modify their receiver (a local cell, handled by HavocArgs)
		if strings.Contains(m[2], "Builder") || strings.Contains(m[2], "Buffer") {
			return ExtSpec{Known: true, HavocArgs: true, NoPanic: true}
		}
		return ExtSpec{Known: true, Pure: true}
	}
	// unknown: scalar-only signatures are treated as pure-but-unknown, anything else may write everything
	refs := false
	sig := f.Signature
	for i := 0; i < sig.Params().Len(); i++ {
		switch sig.Params().At(i).Type().Underlying().(type) {
		case *types.Basic:
		default:
			refs = true
		}
	}
	if sig.Recv() != nil {
		refs = true
	}
	return ExtSpec{Known: false, HavocAll: refs, Nondet: true}
}

func externalMethodHavoc(c *ssa.CallCommon) bool {
	// methods of external interfaces (error, context.Context, hash.Hash64, fmt.Stringer ...)
	return false
}

func (vc *VC) execExternal(f *ssa.Function, c *ssa.CallCommon, h *Heap, reach string) []Term {
	es := externalSpec(f)
	name := f.String()
	if name == "fmt.Errorf" || name == "errors.New" {
		// ghost: the number of error values created so far
		vc.compDecl("Gerr_n", SInt)
		vc.set(h, "Gerr_n", app("+", vc.get(h, "Gerr_n"), "1"))
	}
	vc.trusted["external "+name] = true
	if !es.Known {
		vc.assumptions["external function "+name+" has no table entry (treated as unknown)"] = true
	}
	switch name {
	case "hash/fnv.New64a":
		// a new hasher that has consumed nothing yet (ghost: Ghash_data[ref] is the text written so far)
		vc.compDecl("Ghash_data", "(Array Int Str)")
		r := vc.newRef(h, "hasher")
		vc.set(h, "Ghash_data", app("store", vc.get(h, "Ghash_data"), r, vc.u.strLit("")))
		tag := vc.u.tagOf(types.NewPointer(types.Typ[types.Uint64])) // stands for *fnv.sum64a
		return []Term{mk(vc.define("hasher", SIface, app("mk-iface", fmt.Sprint(tag), r)), SIface).withType(f.Signature.Results().At(0).Type())}
	case "sort.Slice", "sort.Sort", "sort.Stable", "sort.SliceStable":
		// documented semantics: sorts the slice in place - afterwards its contents are a permutation of its
		// contents before; less is called with indices inside the slice only, and sort.Slice panics only if less
		// does (the less closures of the module are checked panic-free under exactly that precondition)
		if mi, ok := c.Args[0].(*ssa.MakeInterface); ok {
			v := mi.X
			if ct, ok := v.(*ssa.ChangeType); ok {
				v = ct.X
			}
			if sl, ok := v.Type().Underlying().(*types.Slice); ok {
				sv := vc.value(v)
				comp, es := vc.elemComp(sl.Elem())
				arr, off, ln := app("s.arr", sv.S), app("s.off", sv.S), app("s.len", sv.S)
				oldRow := vc.define("sort_old", fmt.Sprintf("(Array Int %s)", es), app("select", vc.get(h, comp), arr))
				vc.havocRow(h, comp, arr)
				newRow := vc.define("sort_new", fmt.Sprintf("(Array Int %s)", es), app("select", vc.get(h, comp), arr))
				perm := vc.freshName("sort_perm")
				vc.emit(fmt.Sprintf("(declare-fun %s (Int) Int)", perm))
				inR := func(x string) string { return and(app("<=", "0", x), app("<", x, ln)) }
				el := vc.u.elt(es)
				vc.emit(fmt.Sprintf("(assert (forall ((i Int)) (! (=> %s (and %s (= (select %s (+ %s i)) (select %s (+ %s (%s i)))))) :pattern ((%s i)) :pattern ((select %s (+ %s i))) :pattern ((%s %s %s i)))))",
					inR("i"), inR("("+perm+" i)"), newRow, off, oldRow, off, perm, perm, newRow, off, el, newRow, off))
				vc.emit(fmt.Sprintf("(assert (forall ((i Int) (j Int)) (! (=> (and %s %s (= (%s i) (%s j))) (= i j)) :pattern ((%s i) (%s j)))))", inR("i"), inR("j"), perm, perm, perm, perm))
				// outside the slice's window the backing array is untouched
				vc.emit(fmt.Sprintf("(assert (forall ((k Int)) (! (=> (or (< k %s) (>= k (+ %s %s))) (= (select %s k) (select %s k))) :pattern ((select %s k)))))", off, off, ln, newRow, oldRow, newRow))
				return nil
			}
		}
	case "(encoding/binary.bigEndian).Uint16":
		// documented semantics: b[0]<<8 | b[1], panics when len(b) < 2
		b := vc.value(c.Args[1])
		vc.check("index", reach, app("<=", "2", app("s.len", b.S)), "binary.BigEndian.Uint16 needs two bytes")
		comp, es := vc.elemComp(c.Args[1].Type().Underlying().(*types.Slice).Elem())
		row := app("select", vc.get(h, comp), app("s.arr", b.S))
		el := vc.u.elt(es)
		t := app("+", app("*", "256", app(el, row, app("s.off", b.S), "0")), app(el, row, app("s.off", b.S), "1"))
		return []Term{mk(vc.define("be16", SInt, t), SInt).withType(types.Typ[types.Uint16])}
	case "(encoding/binary.bigEndian).PutUint16":
		b := vc.value(c.Args[1])
		v := vc.value(c.Args[2])
		vc.check("index", reach, app("<=", "2", app("s.len", b.S)), "binary.BigEndian.PutUint16 needs two bytes")
		comp, _ := vc.elemComp(c.Args[1].Type().Underlying().(*types.Slice).Elem())
		e0 := vc.get(h, comp)
		row := app("select", e0, app("s.arr", b.S))
		row = app("store", row, app("s.off", b.S), app("div", v.S, "256"))
		row = app("store", row, app("+", app("s.off", b.S), "1"), app("mod", v.S, "256"))
		vc.set(h, comp, app("store", e0, app("s.arr", b.S), row))
		return nil
	}
	if !es.NoPanic {
		vc.safety("ext."+name, reach, "false", "external function "+name+" is not known to be panic-free")
	}
	if name == "fmt.Sprintf" {
		if r, ok := vc.sprintfCall(c, h); ok {
			return []Term{r}
		}
	}
	var args []Term
	simple := true
	for _, a := range c.Args {
		if ad, ok := vc.addrs[a]; ok {
			// pointer to a local cell / field handed to the callee
			if es.HavocArgs || es.HavocAll {
				vc.havocAddr(h, ad)
			}
			simple = false
			args = append(args, Term{})
			continue
		}
		if _, isGlobal := a.(*ssa.Global); isGlobal {
			// the address of a package-level variable (a mutex, a table) handed to an external function: opaque
			simple = false
			args = append(args, Term{})
			continue
		}
		t := vc.value(a)
		args = append(args, t)
		switch t.Sort {
		case SInt, SBool, SStr, SF64:
			if isRefType(a.Type()) {
				simple = false
				if es.HavocArgs {
					vc.havocThrough(h, a.Type(), t)
				}
			}
		case SSlice:
			simple = false
			if es.HavocArgs {
				et := a.Type().Underlying().(*types.Slice).Elem()
				comp, _ := vc.elemComp(et)
				vc.havocRow(h, comp, app("s.arr", t.S))
			}
		case SIface:
			simple = false
			if es.HavocArgs {
				// e.g. sort.Sort(ByName(entries)): the dynamic value may be a slice whose elements are permuted
				vc.havocIfaceArg(h, a, t)
			}
		default:
			if !strings.HasPrefix(t.Sort, "X_") && !strings.HasPrefix(t.Sort, "S_") {
				simple = false
			}
		}
	}
	if es.HavocAll {
		vc.havocAll(h)
	}
	sig := f.Signature
	if es.Pure && !es.Nondet {
		// deterministic function of its arguments
		var res []Term
		ok := simple || allPresent(args)
		if ok {
			var as []string
			var sorts []Sort
			for _, a := range args {
				if a.S == "" {
					ok = false
					break
				}
				as = append(as, a.S)
				sorts = append(sorts, a.Sort)
			}
			if ok {
				for i := 0; i < sig.Results().Len(); i++ {
					rt := sig.Results().At(i).Type()
					rs := vc.u.sortOf(rt)
					fname := "ext." + sanitize(name)
					if sig.Results().Len() > 1 {
						fname = fmt.Sprintf("%s.%d", fname, i)
					}
					var term string
					if sl, isSlice := rt.Underlying().(*types.Slice); isSlice && len(as) > 0 {
						// a pure function returns a newly allocated slice whose length and contents are functions of the arguments
						comp, es := vc.elemComp(sl.Elem())
						r := vc.newRef(h, "extslice")
						ln := app(vc.u.ufun(fname+".len", sorts, SInt), as...)
						row := app(vc.u.ufun(fname+".row", sorts, fmt.Sprintf("(Array Int %s)", es)), as...)
						vc.assume("true", app(">=", ln, "0"))
						vc.set(h, comp, app("store", vc.get(h, comp), r, row))
						term = app("mk-slice", r, "0", ln, ln)
					} else if len(as) == 0 {
						vc.u.declare(fname, fmt.Sprintf("(declare-const %s %s)", fname, rs))
						term = fname
					} else {
						term = app(vc.u.ufun(fname, sorts, rs), as...)
					}
					r := mk(vc.define("ext", rs, term), rs).withType(rt)
					vc.extFacts(name, args, r, i)
					res = append(res, r)
				}
				if es.NonNil && len(res) > 0 {
					vc.assume(reach, nonZero(res[0]))
				}
				return res
			}
		}
	}
	res := vc.resultTerms(sig, h, reach, "ext")
	if es.NonNil && len(res) > 0 {
		vc.assume(reach, nonZero(res[0]))
	}
	return res
}

func allPresent(args []Term) bool {
	for _, a := range args {
		if a.S == "" {
			return false
		}
	}
	return true
}

func nonZero(t Term) string {
	switch t.Sort {
	case SIface:
		return not(eq(app("i.tag", t.S), "0"))
	case SInt:
		return not(eq(t.S, "0"))
	}
	return "true"
}

// algebraic facts about a few pure externals
func (vc *VC) extFacts(name string, args []Term, r Term, idx int) {
	switch name {
	case "unicode/utf8.RuneCountInString":
		vc.assume("true", eq(r.S, app(vc.runeCount(), args[0].S)))
	case "strings.Contains":
	case "(reflect.Value).Len", "(reflect.Value).NumField", "(reflect.Type).NumField":
		// lengths and counts are never negative
		vc.assume("true", app(">=", r.S, "0"))
	}
	if r.Sort == SInt && r.T != nil {
		if lo, hi, ok := intRange(r.T); ok && !isRefType(r.T) {
			vc.assume("true", and(app("<=", lo, r.S), app("<=", r.S, hi)))
		}
	}
}

func (vc *VC) havocAddr(h *Heap, a *Addr) {
	s := vc.u.sortOf(a.typ)
	v := vc.fresh("ext_out", s)
	vc.storeAddr(h, a, mk(v, s))
}

func (vc *VC) havocRow(h *Heap, comp, arr string) {
	s := vc.compSort[comp]
	inner := strings.TrimSuffix(strings.TrimPrefix(s, "(Array Int "), ")")
	row := vc.fresh("ext_row", inner)
	vc.set(h, comp, app("store", vc.get(h, comp), arr, row))
}

func (vc *VC) havocThrough(h *Heap, t types.Type, p Term) {
	pt, ok := t.Underlying().(*types.Pointer)
	if !ok {
		return
	}
	et := pt.Elem()
	if isModuleStruct(et) {
		st := et.Underlying().(*types.Struct)
		for i := 0; i < st.NumFields(); i++ {
			comp, fs, _ := vc.fieldCompOf(et, i)
			vc.set(h, comp, app("store", vc.get(h, comp), p.S, vc.fresh("ext_f", fs)))
		}
		return
	}
	comp, s := vc.cellComp(et)
	vc.set(h, comp, app("store", vc.get(h, comp), p.S, vc.fresh("ext_c", s)))
}

func (vc *VC) havocIfaceArg(h *Heap, a ssa.Value, t Term) {
	// if the interface was made from a slice, havoc that slice's row
	if mi, ok := a.(*ssa.MakeInterface); ok {
		v := mi.X
		if ct, ok := v.(*ssa.ChangeType); ok {
			v = ct.X
		}
		if sl, ok := v.Type().Underlying().(*types.Slice); ok {
			comp, _ := vc.elemComp(sl.Elem())
			vc.havocRow(h, comp, app("s.arr", vc.value(v).S))
			return
		}
	}
	vc.havocAll(h)
}

// methods of interfaces with no module implementer (error, context.Context, hash.Hash64, ...)
func (vc *VC) execExternalMethod(c *ssa.CallCommon, recv Term, args []Term, h *Heap, reach string) []Term {
	name := types.TypeString(c.Value.Type(), nil) + "." + c.Method.Name()
	vc.trusted["external method "+name] = true
	sig := c.Signature()
	switch name {
	case "error.Error", "context.Context.Done", "context.Context.Err", "hash.Hash64.Sum64", "hash.Hash64.Write", "fmt.Stringer.String":
	default:
		vc.safety("extm."+name, reach, "false", "external interface method "+name+" is not known to be panic-free")
	}
	switch name {
	case "hash.Hash64.Write":
		// the hasher consumes the bytes of a string: []byte(s)
		vc.compDecl("Ghash_data", "(Array Int Str)")
		ref := app("i.val", recv.S)
		cur := app("select", vc.get(h, "Ghash_data"), ref)
		var nw string
		if cv, ok := c.Args[0].(*ssa.Convert); ok && vc.u.sortOf(cv.X.Type()) == SStr {
			nw = app("gs.cat", cur, vc.value(cv.X).S)
		} else {
			nw = vc.fresh("hashdata", SStr)
		}
		vc.set(h, "Ghash_data", app("store", vc.get(h, "Ghash_data"), ref, nw))
		return vc.resultTerms(sig, h, reach, "extm")
	case "hash.Hash64.Sum64":
		// FNV-1a of everything written so far: a function of that text (trusted: hash/fnv)
		vc.compDecl("Ghash_data", "(Array Int Str)")
		cur := app("select", vc.get(h, "Ghash_data"), app("i.val", recv.S))
		t := app(vc.u.ufun("fnvStr", []Sort{SStr}, SInt), cur)
		r := mk(vc.define("sum64", SInt, t), SInt).withType(types.Typ[types.Uint64])
		vc.assume("true", and(app("<=", "0", r.S), app("<=", r.S, "18446744073709551615")))
		return []Term{r}
	}
	// observers: deterministic in the receiver (and the heap epoch is ignored: external state is opaque)
	res := vc.resultTerms(sig, h, reach, "extm")
	return res
}

// variadic elements packed by the compiler into a fresh [N]T array (N small, known)
func (vc *VC) variadicElems(v ssa.Value, h *Heap) ([]Term, bool) {
	if cst, ok := v.(*ssa.Const); ok && cst.Value == nil {
		return nil, true
	}
	sl, ok := v.(*ssa.Slice)
	if !ok || sl.Low != nil || sl.High != nil {
		return nil, false
	}
	al, ok := sl.X.(*ssa.Alloc)
	if !ok {
		return nil, false
	}
	at, ok := al.Type().Underlying().(*types.Pointer).Elem().Underlying().(*types.Array)
	if !ok || at.Len() > 6 {
		return nil, false
	}
	comp, es := vc.elemComp(at.Elem())
	row := app("select", vc.get(h, comp), vc.value(al).S)
	var out []Term
	for j := 0; j < int(at.Len()); j++ {
		out = append(out, mk(app("select", row, fmt.Sprint(j)), es).withType(at.Elem()))
	}
	return out, true
}

func (vc *VC) sprintfTerm(format Term, elems []Term) Term {
	sorts := []Sort{SStr}
	args := []string{format.S}
	for _, e := range elems {
		sorts = append(sorts, SIface)
		args = append(args, e.S)
	}
	name := fmt.Sprintf("sprintf.%d", len(elems))
	return mk(app(vc.u.ufun(name, sorts, SStr), args...), SStr).withType(types.Typ[types.String])
}

func (vc *VC) sprintfCall(c *ssa.CallCommon, h *Heap) (Term, bool) {
	if len(c.Args) != 2 {
		return Term{}, false
	}
	elems, ok := vc.variadicElems(c.Args[1], h)
	if !ok {
		return Term{}, false
	}
	t := vc.sprintfTerm(vc.value(c.Args[0]), elems)
	return mk(vc.define("sprintf", SStr, t.S), SStr).withType(types.Typ[types.String]), true
}
