package main

import (
	"bufio"
	"os"
	"regexp"
	"sort"
	"strings"
	"sync"
	"time"
)

// coverCheck decides, for every recorded program point (returns, loop heads, points after calls), whether
// its path condition is refutable from everything assumed on the way.  "unsat" means the point is
// unreachable: legitimately dead code, or - the case this guards against - contradictory assumptions
// (an inconsistent contract, precondition or engine axiom) behind which every obligation holds vacuously.
// Points are tried from the last to the first; a point that is not refuted clears the points that
// dominate it (their path conditions are weaker and their contexts smaller).
func coverCheck(vcs []*VC, timeout time.Duration) (points int, unreachable []string) {
	var mu sync.Mutex
	var wg sync.WaitGroup
	sem := make(chan struct{}, 16)
	for _, vc := range vcs {
		if vc == nil || len(vc.covers) == 0 {
			continue
		}
		points += len(vc.covers)
		wg.Add(1)
		go func(vc *VC) {
			defer wg.Done()
			sem <- struct{}{}
			defer func() { <-sem }()
			cleared := make([]bool, len(vc.covers))
			for i := len(vc.covers) - 1; i >= 0; i-- {
				if cleared[i] {
					continue
				}
				o := vc.covers[i]
				q := vc.query(o, false)
				if d := os.Getenv("GOVC_DUMPCOVER"); d != "" && strings.Contains(o.Name, d) {
					os.MkdirAll("/tmp/govc-dump", 0o755)
					os.WriteFile("/tmp/govc-dump/cover.smt2", []byte(q), 0o644)
				}
				key := "COVER-REACHABLE\n" + q
				refuted := false
				if cacheGet(q) {
					refuted = true
				} else if !cacheGet(key) {
					r := runSolver("z3-new", q, timeout)
					if r.verdict == "unsat" {
						refuted = true
						cachePut(q, "z3-new")
					} else {
						cachePut(key, "z3-new")
					}
				}
				if refuted {
					mu.Lock()
					unreachable = append(unreachable, o.Name)
					mu.Unlock()
					continue
				}
				for j := 0; j < i; j++ {
					pj := vc.covers[j]
					if pj.Block != nil && o.Block != nil && pj.Prefix <= o.Prefix && pj.Block.Dominates(o.Block) {
						cleared[j] = true
					}
				}
			}
		}(vc)
	}
	wg.Wait()
	sort.Strings(unreachable)
	return
}

// dead points: program points known to be unreachable for a stated reason (/verif/spec/dead_points.txt:
// "<regexp of the cover name> <reason>" per line)
type deadPoint struct {
	re  *regexp.Regexp
	why string
}

var deadPoints []deadPoint
var deadOnce sync.Once

func deadReason(name string) string {
	deadOnce.Do(func() {
		f, err := os.Open(specDir + "/dead_points.txt")
		if err != nil {
			return
		}
		defer f.Close()
		sc := bufio.NewScanner(f)
		for sc.Scan() {
			l := strings.TrimSpace(sc.Text())
			if l == "" || strings.HasPrefix(l, "#") {
				continue
			}
			parts := strings.SplitN(l, " ", 2)
			re, err := regexp.Compile("^" + parts[0] + "$")
			if err != nil {
				continue
			}
			why := ""
			if len(parts) > 1 {
				why = strings.TrimSpace(parts[1])
			}
			deadPoints = append(deadPoints, deadPoint{re, why})
		}
	})
	for _, d := range deadPoints {
		if d.re.MatchString(name) {
			return "(listed: " + d.why + ")"
		}
	}
	return ""
}
