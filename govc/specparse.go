package main

// Parser for the contract / spec expression language (Go-like expressions plus
// old(), pre(), ==>, <==>, ===, forall/exists, conditional ?:).

import (
	"fmt"
	"math/big"
	"strings"
	"unicode"
)

type Expr struct {
	Op   string // ident int str bool sel index slice call old pre un bin cond forall exists assert type result
	Name string // identifier, operator, field, bound variable
	Args []*Expr
	Int  *big.Int
	Str  string
	Type string // for type operands / quantifier sort
	Src  string
}

func (e *Expr) String() string {
	if e == nil {
		return "<nil>"
	}
	switch e.Op {
	case "ident", "result":
		return e.Name
	case "int":
		return e.Int.String()
	case "str":
		return fmt.Sprintf("%q", e.Str)
	case "bool":
		return e.Name
	case "sel":
		return e.Args[0].String() + "." + e.Name
	case "index":
		return e.Args[0].String() + "[" + e.Args[1].String() + "]"
	case "slice":
		s := e.Args[0].String() + "["
		if e.Args[1] != nil {
			s += e.Args[1].String()
		}
		s += ":"
		if e.Args[2] != nil {
			s += e.Args[2].String()
		}
		return s + "]"
	case "call":
		var as []string
		for _, a := range e.Args {
			as = append(as, a.String())
		}
		return e.Name + "(" + strings.Join(as, ", ") + ")"
	case "old", "pre":
		return e.Op + "(" + e.Args[0].String() + ")"
	case "un":
		return e.Name + e.Args[0].String()
	case "bin":
		return "(" + e.Args[0].String() + " " + e.Name + " " + e.Args[1].String() + ")"
	case "cond":
		return "(" + e.Args[0].String() + " ? " + e.Args[1].String() + " : " + e.Args[2].String() + ")"
	case "forall", "exists":
		if len(e.Args) == 3 {
			return e.Op + " " + e.Name + " in " + e.Args[0].String() + ".." + e.Args[1].String() + " :: " + e.Args[2].String()
		}
		return e.Op + " " + e.Name + " " + e.Type + " :: " + e.Args[0].String()
	case "assert":
		return e.Args[0].String() + ".(" + e.Type + ")"
	case "type":
		return e.Type
	}
	return "?" + e.Op
}

type tok struct {
	k string // id int str op eof
	s string
}

func lexSpec(src string) ([]tok, error) {
	var out []tok
	i := 0
	ops := []string{"<==>", "==>", "===", "!==", "==", "!=", "<=", ">=", "&&", "||", "::", "..", "<", ">", "!", "+", "-", "*", "/", "%", "(", ")", "[", "]", ",", ".", ":", "?", "{", "}"}
	for i < len(src) {
		c := src[i]
		switch {
		case c == ' ' || c == '\t' || c == '\n' || c == '\r':
			i++
		case unicode.IsLetter(rune(c)) || c == '_' || c == '$':
			j := i
			for j < len(src) && (unicode.IsLetter(rune(src[j])) || unicode.IsDigit(rune(src[j])) || src[j] == '_' || src[j] == '$') {
				j++
			}
			out = append(out, tok{"id", src[i:j]})
			i = j
		case c >= '0' && c <= '9':
			j := i
			for j < len(src) && (src[j] >= '0' && src[j] <= '9' || src[j] == 'x' || (src[j] >= 'a' && src[j] <= 'f') || (src[j] >= 'A' && src[j] <= 'F')) {
				// stop at ".." range operator
				j++
			}
			out = append(out, tok{"int", src[i:j]})
			i = j
		case c == '"':
			j := i + 1
			var b strings.Builder
			for j < len(src) && src[j] != '"' {
				if src[j] == '\\' && j+1 < len(src) {
					j++
					switch src[j] {
					case 'n':
						b.WriteByte('\n')
					case 't':
						b.WriteByte('\t')
					case 'r':
						b.WriteByte('\r')
					default:
						b.WriteByte(src[j])
					}
				} else {
					b.WriteByte(src[j])
				}
				j++
			}
			if j >= len(src) {
				return nil, fmt.Errorf("unterminated string in %q", src)
			}
			out = append(out, tok{"str", b.String()})
			i = j + 1
		case c == '\'':
			// rune literal
			j := i + 1
			var r rune
			if src[j] == '\\' {
				j++
				switch src[j] {
				case 'n':
					r = '\n'
				case 't':
					r = '\t'
				case 'r':
					r = '\r'
				case '0':
					r = 0
				default:
					r = rune(src[j])
				}
				j++
			} else {
				rs := []rune(src[j:])
				r = rs[0]
				j += len(string(r))
			}
			if j >= len(src) || src[j] != '\'' {
				return nil, fmt.Errorf("bad rune literal in %q", src)
			}
			out = append(out, tok{"int", fmt.Sprintf("%d", r)})
			i = j + 1
		default:
			matched := false
			for _, op := range ops {
				if strings.HasPrefix(src[i:], op) {
					out = append(out, tok{"op", op})
					i += len(op)
					matched = true
					break
				}
			}
			if !matched {
				return nil, fmt.Errorf("unexpected character %q in %q", c, src)
			}
		}
	}
	out = append(out, tok{"eof", ""})
	return out, nil
}

type specParser struct {
	toks []tok
	p    int
	src  string
}

func parseSpecExpr(src string) (*Expr, error) {
	toks, err := lexSpec(src)
	if err != nil {
		return nil, err
	}
	sp := &specParser{toks: toks, src: src}
	var e *Expr
	func() {
		defer func() {
			if r := recover(); r != nil {
				err = fmt.Errorf("%v in %q", r, src)
			}
		}()
		e = sp.expr()
		if sp.cur().k != "eof" {
			panic(fmt.Sprintf("trailing token %q", sp.cur().s))
		}
	}()
	if e != nil {
		e.Src = src
	}
	return e, err
}

func (p *specParser) cur() tok  { return p.toks[p.p] }
func (p *specParser) next() tok { t := p.toks[p.p]; p.p++; return t }
func (p *specParser) isOp(s string) bool {
	return p.cur().k == "op" && p.cur().s == s
}
func (p *specParser) isId(s string) bool {
	return p.cur().k == "id" && p.cur().s == s
}
func (p *specParser) expect(s string) {
	if !p.isOp(s) {
		panic(fmt.Sprintf("expected %q, got %q", s, p.cur().s))
	}
	p.p++
}

func (p *specParser) expr() *Expr {
	if p.isId("forall") || p.isId("exists") {
		q := p.next().s
		name := p.next().s
		if p.isId("in") {
			p.next()
			lo := p.addExpr()
			p.expect("..")
			hi := p.addExpr()
			p.expect("::")
			body := p.expr()
			return &Expr{Op: q, Name: name, Args: []*Expr{lo, hi, body}}
		}
		ty := p.typeExpr()
		p.expect("::")
		body := p.expr()
		return &Expr{Op: q, Name: name, Type: ty, Args: []*Expr{body}}
	}
	c := p.iff()
	if p.isOp("?") {
		p.next()
		a := p.expr()
		p.expect(":")
		b := p.expr()
		return &Expr{Op: "cond", Args: []*Expr{c, a, b}}
	}
	return c
}

func (p *specParser) iff() *Expr {
	l := p.impl()
	for p.isOp("<==>") {
		p.next()
		r := p.impl()
		l = &Expr{Op: "bin", Name: "<==>", Args: []*Expr{l, r}}
	}
	return l
}

func (p *specParser) impl() *Expr {
	l := p.orExpr()
	if p.isOp("==>") {
		p.next()
		var r *Expr
		if p.isId("forall") || p.isId("exists") {
			r = p.expr()
		} else {
			r = p.impl()
		}
		return &Expr{Op: "bin", Name: "==>", Args: []*Expr{l, r}}
	}
	return l
}

func (p *specParser) orExpr() *Expr {
	l := p.andExpr()
	for p.isOp("||") {
		p.next()
		r := p.andExpr()
		l = &Expr{Op: "bin", Name: "||", Args: []*Expr{l, r}}
	}
	return l
}

func (p *specParser) andExpr() *Expr {
	l := p.cmp()
	for p.isOp("&&") {
		p.next()
		var r *Expr
		if p.isId("forall") || p.isId("exists") {
			r = p.expr()
		} else {
			r = p.cmp()
		}
		l = &Expr{Op: "bin", Name: "&&", Args: []*Expr{l, r}}
	}
	return l
}

func (p *specParser) cmp() *Expr {
	l := p.addExpr()
	for _, op := range []string{"===", "!==", "==", "!=", "<=", ">=", "<", ">"} {
		if p.isOp(op) {
			p.next()
			r := p.addExpr()
			return &Expr{Op: "bin", Name: op, Args: []*Expr{l, r}}
		}
	}
	return l
}

func (p *specParser) addExpr() *Expr {
	l := p.mulExpr()
	for p.isOp("+") || p.isOp("-") {
		op := p.next().s
		r := p.mulExpr()
		l = &Expr{Op: "bin", Name: op, Args: []*Expr{l, r}}
	}
	return l
}

func (p *specParser) mulExpr() *Expr {
	l := p.unary()
	for p.isOp("*") || p.isOp("/") || p.isOp("%") {
		op := p.next().s
		r := p.unary()
		l = &Expr{Op: "bin", Name: op, Args: []*Expr{l, r}}
	}
	return l
}

func (p *specParser) unary() *Expr {
	if p.isOp("!") || p.isOp("-") {
		op := p.next().s
		return &Expr{Op: "un", Name: op, Args: []*Expr{p.unary()}}
	}
	return p.postfix()
}

func (p *specParser) typeExpr() string {
	var b strings.Builder
	for {
		if p.isOp("*") {
			p.next()
			b.WriteString("*")
			continue
		}
		if p.isOp("[") {
			p.next()
			p.expect("]")
			b.WriteString("[]")
			continue
		}
		break
	}
	if p.cur().k != "id" {
		panic(fmt.Sprintf("type expected, got %q", p.cur().s))
	}
	if p.cur().s == "map" {
		p.next()
		p.expect("[")
		k := p.typeExpr()
		p.expect("]")
		v := p.typeExpr()
		return b.String() + "map[" + k + "]" + v
	}
	b.WriteString(p.next().s)
	if p.isOp(".") {
		p.next()
		b.WriteString(".")
		b.WriteString(p.next().s)
	}
	return b.String()
}

func (p *specParser) postfix() *Expr {
	e := p.primary()
	for {
		switch {
		case p.isOp("."):
			p.next()
			if p.isOp("(") {
				p.next()
				ty := p.typeExpr()
				p.expect(")")
				e = &Expr{Op: "assert", Type: ty, Args: []*Expr{e}}
				continue
			}
			if p.cur().k != "id" {
				panic("field name expected")
			}
			e = &Expr{Op: "sel", Name: p.next().s, Args: []*Expr{e}}
		case p.isOp("["):
			p.next()
			var lo, hi *Expr
			if p.isOp("*") && p.toks[p.p+1].k == "op" && p.toks[p.p+1].s == "]" {
				p.next()
				p.next()
				e = &Expr{Op: "index", Args: []*Expr{e, {Op: "star"}}}
				continue
			}
			if !p.isOp(":") {
				lo = p.expr()
			}
			if p.isOp(":") {
				p.next()
				if !p.isOp("]") {
					hi = p.expr()
				}
				p.expect("]")
				e = &Expr{Op: "slice", Args: []*Expr{e, lo, hi}}
			} else {
				p.expect("]")
				e = &Expr{Op: "index", Args: []*Expr{e, lo}}
			}
		default:
			return e
		}
	}
}

func (p *specParser) primary() *Expr {
	t := p.next()
	switch t.k {
	case "int":
		n := new(big.Int)
		if _, ok := n.SetString(t.s, 0); !ok {
			panic("bad integer " + t.s)
		}
		return &Expr{Op: "int", Int: n}
	case "str":
		return &Expr{Op: "str", Str: t.s}
	case "op":
		if t.s == "(" {
			e := p.expr()
			p.expect(")")
			return e
		}
		if t.s == "*" || t.s == "[" {
			// a type used as an argument, e.g. istype(x, *object.Integer)
			p.p--
			return &Expr{Op: "type", Type: p.typeExpr()}
		}
		panic(fmt.Sprintf("unexpected %q", t.s))
	case "id":
		switch t.s {
		case "true", "false":
			return &Expr{Op: "bool", Name: t.s}
		case "old", "pre":
			p.expect("(")
			e := p.expr()
			p.expect(")")
			return &Expr{Op: t.s, Args: []*Expr{e}}
		}
		if p.isOp("(") {
			p.next()
			var args []*Expr
			for !p.isOp(")") {
				args = append(args, p.expr())
				if p.isOp(",") {
					p.next()
				}
			}
			p.expect(")")
			return &Expr{Op: "call", Name: t.s, Args: args}
		}
		return &Expr{Op: "ident", Name: t.s}
	}
	panic(fmt.Sprintf("unexpected token %q", t.s))
}

// substitute identifiers (used for spec macro expansion)
func (e *Expr) subst(m map[string]*Expr) *Expr {
	if e == nil {
		return nil
	}
	if e.Op == "ident" {
		if r, ok := m[e.Name]; ok {
			return r
		}
		return e
	}
	n := *e
	if (e.Op == "forall" || e.Op == "exists") && m[e.Name] != nil {
		m2 := map[string]*Expr{}
		for k, v := range m {
			if k != e.Name {
				m2[k] = v
			}
		}
		m = m2
	}
	n.Args = make([]*Expr, len(e.Args))
	for i, a := range e.Args {
		n.Args[i] = a.subst(m)
	}
	return &n
}
