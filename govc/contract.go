package main

// Contracts: structured //@ comments in /repo/<pkg>/contracts_verif.go and
// spec files under /verif/spec.

import (
	"bufio"
	"fmt"
	"go/ast"
	"go/parser"
	"go/token"
	"os"
	"path/filepath"
	"regexp"
	"sort"
	"strconv"
	"strings"
)

type Clause struct {
	Kind   string // requires ensures invariant step exit decreases assume
	Label  string
	Tags   []string
	Expr   *Expr
	Src    string
	File   string
	Line   int
	Pinned bool
}

type Inherit struct {
	Callee string
	Cond   *Expr
	Binds  map[string]*Expr
	Src    string
	Tags   []string
}

type LoopSpec struct {
	Inherits   []*Inherit
	Invariants []*Clause
	Steps      []*Clause
	Exits      []*Clause
	Decreases  *Clause
	Dominates  []*Clause
}

type Contract struct {
	Key         string // e.g. stack.(*Stack).Pop
	Pkg         string // short package
	Header      string
	ParamNames  []string
	ResultNames []string
	RecvName    string
	Requires    []*Clause
	Assumes     []*Clause // assumed at entry, not checked at call sites (listed as assumptions)
	Ensures     []*Clause
	OnPanic     []*Clause // exceptional postconditions: hold when the function is left by a panic (after its deferred calls)
	Preserves   []*Clause // two-state facts (entry vs now): postcondition and invariant of every loop
	Modifies    []*Expr
	HasModifies bool
	Decreases   *Clause // termination measure for recursion
	PanicsMode  string  // "", never, maybe, when
	PanicsWhen  *Clause
	Loops       map[int]*LoopSpec
	Trusted     string
	Pure        bool
	Effects     []string
	HasEffects  bool
	Props       map[string]string // misc structural clauses (guarded_by, deterministic, ...)
	Tags        []string
	File        string
	Line        int
	Used        bool
	Typed       string // for typed (function-type) contracts: type name
}

type SpecFn struct {
	Name   string
	Params []string
	PTypes []string // Go types of the parameters (recursive spec functions only)
	Ret    string
	Rec    bool
	Body   *Expr
	Src    string
}

type UFun struct {
	Name   string
	Args   []Sort
	Ret    Sort
	Axioms [][2]string
	SMT    string // SMT symbol when different from Name (alias of an external function's symbol)
}

// a global invariant: established by the package initialiser, mentions only state that is never
// written afterwards (checked structurally), assumed at the entry of every function
type GInv struct {
	Pkg string
	Cl  *Clause
}

type ContractSet struct {
	countStores map[string]string // heap component -> name of the ghost counter of stores to it
	ginvs       []*GInv
	ufuns       map[string]*UFun
	byKey       map[string]*Contract
	typed       map[string]*Contract
	specs       map[string]*SpecFn
	axioms      []*Clause
	files       []string
	nlines      int
}

var clauseKW = map[string]bool{"func": true, "countstores": true, "implements": true, "preserves": true, "ginv": true, "decreases": true, "assumes": true, "requires": true, "ensures": true, "onpanic": true, "modifies": true, "panics": true,
	"loop": true, "spec": true, "axiom": true, "typed": true, "trusted": true, "pure": true, "effects": true,
	"ufun": true, "smtaxiom": true, "rec": true, "signature": true, "records": true, "maporder": true, "sortkey_injective": true, "guarded_global": true, "guarded_by": true, "deterministic": true, "recursion": true, "statefields": true, "immutable": true, "pkg": true, "dominates": true, "tags": true}

var tagRe = regexp.MustCompile(`^@(C[0-9]{2,3}|pinned)$`)
var labelRe = regexp.MustCompile(`^([A-Za-z_][A-Za-z0-9_.\-]*):$`)

func loadContracts(repo, specDir string) (*ContractSet, error) {
	cs := &ContractSet{countStores: map[string]string{}, ufuns: map[string]*UFun{}, byKey: map[string]*Contract{}, typed: map[string]*Contract{}, specs: map[string]*SpecFn{}}
	var files []string
	filepath.Walk(repo, func(p string, info os.FileInfo, err error) error {
		if err == nil && !info.IsDir() && info.Name() == "contracts_verif.go" {
			files = append(files, p)
		}
		return nil
	})
	specs, _ := filepath.Glob(filepath.Join(specDir, "*.spec"))
	sort.Strings(files)
	sort.Strings(specs)
	for _, f := range append(specs, files...) {
		if err := cs.loadFile(f, repo); err != nil {
			return nil, err
		}
	}
	return cs, nil
}

func (cs *ContractSet) loadFile(path, repo string) error {
	fh, err := os.Open(path)
	if err != nil {
		return err
	}
	defer fh.Close()
	cs.files = append(cs.files, path)
	isGo := strings.HasSuffix(path, ".go")
	pkg := ""
	if isGo {
		rel, _ := filepath.Rel(repo, filepath.Dir(path))
		if rel == "." {
			pkg = "evalfilter"
		} else {
			pkg = filepath.ToSlash(rel)
		}
	}
	type rawClause struct {
		text string
		line int
	}
	var raws []rawClause
	sc := bufio.NewScanner(fh)
	sc.Buffer(make([]byte, 1<<20), 1<<20)
	ln := 0
	for sc.Scan() {
		ln++
		line := sc.Text()
		var body string
		if isGo {
			t := strings.TrimSpace(line)
			if !strings.HasPrefix(t, "//@") {
				continue
			}
			body = strings.TrimPrefix(t, "//@")
		} else {
			t := strings.TrimSpace(line)
			if t == "" || strings.HasPrefix(t, "#") {
				continue
			}
			body = line
		}
		cs.nlines++
		tb := strings.TrimSpace(body)
		if tb == "" {
			continue
		}
		first := strings.Fields(tb)[0]
		if clauseKW[first] {
			raws = append(raws, rawClause{tb, ln})
		} else {
			if len(raws) == 0 {
				return fmt.Errorf("%s:%d: continuation line without clause", path, ln)
			}
			raws[len(raws)-1].text += " " + tb
		}
	}
	var cur *Contract
	for _, rc := range raws {
		fields := strings.Fields(rc.text)
		kw := fields[0]
		rest := strings.TrimSpace(strings.TrimPrefix(rc.text, kw))
		fail := func(err error) error { return fmt.Errorf("%s:%d: %v", path, rc.line, err) }
		switch kw {
		case "pkg":
			pkg = rest
		case "func", "typed":
			c, err := parseHeader(kw, rest, pkg)
			if err != nil {
				return fail(err)
			}
			c.File, c.Line = path, rc.line
			if kw == "typed" {
				cs.typed[c.Typed] = c
			} else {
				if _, dup := cs.byKey[c.Key]; dup {
					return fail(fmt.Errorf("duplicate contract for %s", c.Key))
				}
				cs.byKey[c.Key] = c
			}
			cur = c
		case "rec":
			// rec name(a T, b U) R = expr
			j := strings.Index(rest, "(")
			k := strings.Index(rest, ")")
			if j < 0 || k < j {
				return fail(fmt.Errorf("bad rec definition"))
			}
			eqi := k + 1 + strings.Index(rest[k+1:], "=")
			sf := &SpecFn{Name: strings.TrimSpace(rest[:j]), Rec: true, Ret: strings.TrimSpace(rest[k+1 : eqi]), Src: rest}
			for _, p := range strings.Split(rest[j+1:k], ",") {
				f := strings.Fields(p)
				if len(f) != 2 {
					return fail(fmt.Errorf("rec parameters need a type: %q", p))
				}
				sf.Params = append(sf.Params, f[0])
				sf.PTypes = append(sf.PTypes, f[1])
			}
			body, err := parseSpecExpr(strings.TrimSpace(rest[eqi+1:]))
			if err != nil {
				return fail(err)
			}
			sf.Body = body
			cs.specs[sf.Name] = sf
		case "spec":
			// spec name(a, b) = expr
			i := strings.Index(rest, "=")
			j := strings.Index(rest, "(")
			k := strings.Index(rest, ")")
			if i < 0 || j < 0 || k < 0 || j > k || k > i {
				return fail(fmt.Errorf("bad spec definition"))
			}
			name := strings.TrimSpace(rest[:j])
			var params []string
			for _, p := range strings.Split(rest[j+1:k], ",") {
				p = strings.TrimSpace(p)
				if p != "" {
					params = append(params, strings.Fields(p)[0])
				}
			}
			// find the '=' after the parameter list
			eqi := k + 1 + strings.Index(rest[k+1:], "=")
			body, err := parseSpecExpr(strings.TrimSpace(rest[eqi+1:]))
			if err != nil {
				return fail(err)
			}
			cs.specs[name] = &SpecFn{Name: name, Params: params, Body: body, Src: rest}
		case "ufun":
			// ufun name(Sort, Sort) Sort
			j := strings.Index(rest, "(")
			k := -1
			for d, i := 0, j; i >= 0 && i < len(rest); i++ {
				if rest[i] == '(' {
					d++
				} else if rest[i] == ')' {
					d--
					if d == 0 {
						k = i
						break
					}
				}
			}
			if j < 0 || k < j {
				return fail(fmt.Errorf("bad ufun declaration"))
			}
			tail := strings.TrimSpace(rest[k+1:])
			smtName := ""
			if i := strings.Index(tail, "="); i >= 0 {
				smtName = strings.TrimSpace(tail[i+1:])
				tail = strings.TrimSpace(tail[:i])
			}
			uf := &UFun{Name: strings.TrimSpace(rest[:j]), Ret: specSort(tail), SMT: smtName}
			for _, a := range splitTop(rest[j+1 : k]) {
				if a = strings.TrimSpace(a); a != "" {
					uf.Args = append(uf.Args, specSort(a))
				}
			}
			cs.ufuns[uf.Name] = uf
		case "smtaxiom":
			// smtaxiom <ufun> <label> <raw smt assertion>
			f := strings.Fields(rest)
			if len(f) < 3 || cs.ufuns[f[0]] == nil {
				return fail(fmt.Errorf("bad smtaxiom"))
			}
			raw := strings.TrimSpace(strings.TrimPrefix(strings.TrimSpace(strings.TrimPrefix(rest, f[0])), f[1]))
			cs.ufuns[f[0]].Axioms = append(cs.ufuns[f[0]].Axioms, [2]string{f[1], raw})
		case "countstores":
			// countstores <name> <component>: ghost counter of the stores to a heap component
			f := strings.Fields(rest)
			if len(f) != 2 {
				return fail(fmt.Errorf("countstores <name> <component>"))
			}
			cs.countStores[f[1]] = f[0]
		case "ginv":
			cl, err := parseClause("ginv", rest, path, rc.line)
			if err != nil {
				return fail(err)
			}
			cs.ginvs = append(cs.ginvs, &GInv{Pkg: pkg, Cl: cl})
			cur = nil
		case "axiom":
			cl, err := parseClause("axiom", rest, path, rc.line)
			if err != nil {
				return fail(err)
			}
			cs.axioms = append(cs.axioms, cl)
		default:
			if cur == nil {
				return fail(fmt.Errorf("clause %q outside a func block", kw))
			}
			switch kw {
			case "requires", "ensures", "assumes", "preserves", "onpanic":
				cl, err := parseClause(kw, rest, path, rc.line)
				if err != nil {
					return fail(err)
				}
				if kw == "onpanic" {
					cur.OnPanic = append(cur.OnPanic, cl)
				} else if kw == "preserves" {
					cur.Preserves = append(cur.Preserves, cl)
					cur.Ensures = append(cur.Ensures, cl)
				} else if kw == "assumes" {
					cur.Assumes = append(cur.Assumes, cl)
				} else if kw == "requires" {
					cur.Requires = append(cur.Requires, cl)
				} else {
					cur.Ensures = append(cur.Ensures, cl)
				}
			case "decreases":
				cl, err := parseClause(kw, rest, path, rc.line)
				if err != nil {
					return fail(err)
				}
				cur.Decreases = cl
			case "modifies":
				cur.HasModifies = true
				if rest != "nothing" {
					for _, part := range splitTop(rest) {
						e, err := parseSpecExpr(part)
						if err != nil {
							return fail(err)
						}
						cur.Modifies = append(cur.Modifies, e)
					}
				}
			case "panics":
				switch {
				case rest == "never" || rest == "maybe":
					cur.PanicsMode = rest
				case strings.HasPrefix(rest, "when "):
					cl, err := parseClause("panics", strings.TrimPrefix(rest, "when "), path, rc.line)
					if err != nil {
						return fail(err)
					}
					cur.PanicsMode = "when"
					cur.PanicsWhen = cl
				default:
					return fail(fmt.Errorf("bad panics clause"))
				}
			case "loop":
				// loop <n> <kind> ...
				if len(fields) < 3 {
					return fail(fmt.Errorf("bad loop clause"))
				}
				n, err := strconv.Atoi(fields[1])
				if err != nil {
					return fail(err)
				}
				kind := fields[2]
				r2 := strings.TrimSpace(strings.TrimPrefix(strings.TrimSpace(strings.TrimPrefix(rest, fields[1])), kind))
				if cur.Loops == nil {
					cur.Loops = map[int]*LoopSpec{}
				}
				ls := cur.Loops[n]
				if ls == nil {
					ls = &LoopSpec{}
					cur.Loops[n] = ls
				}
				if kind == "inherit" {
					// loop N inherit <callee key> when <cond> [with a = e, b = f]
					f2 := strings.Fields(r2)
					if len(f2) < 3 || f2[1] != "when" {
						return fail(fmt.Errorf("loop inherit: <callee> when <cond> [with ...]"))
					}
					inh := &Inherit{Callee: f2[0], Binds: map[string]*Expr{}, Src: r2}
					rest3 := strings.TrimSpace(strings.TrimPrefix(strings.TrimSpace(strings.TrimPrefix(r2, f2[0])), "when"))
					condSrc := rest3
					if i := strings.Index(rest3, " with "); i >= 0 {
						condSrc = rest3[:i]
						for _, b := range splitTop(rest3[i+6:]) {
							kv := strings.SplitN(b, "=", 2)
							if len(kv) != 2 {
								return fail(fmt.Errorf("loop inherit: bad binding %q", b))
							}
							e, err := parseSpecExpr(strings.TrimSpace(kv[1]))
							if err != nil {
								return fail(err)
							}
							inh.Binds[strings.TrimSpace(kv[0])] = e
						}
					}
					ce, err := parseSpecExpr(condSrc)
					if err != nil {
						return fail(err)
					}
					inh.Cond = ce
					ls.Inherits = append(ls.Inherits, inh)
					break
				}
				if kind == "dominates" {
					ls.Dominates = append(ls.Dominates, &Clause{Kind: kind, Src: r2, File: path, Line: rc.line})
					break
				}
				cl, err := parseClause(kind, r2, path, rc.line)
				if err != nil {
					return fail(err)
				}
				switch kind {
				case "invariant":
					ls.Invariants = append(ls.Invariants, cl)
				case "step":
					ls.Steps = append(ls.Steps, cl)
				case "exit":
					ls.Exits = append(ls.Exits, cl)
				case "decreases":
					ls.Decreases = cl
				default:
					return fail(fmt.Errorf("unknown loop clause kind %q", kind))
				}
			case "trusted":
				cur.Trusted = rest
				if cur.Trusted == "" {
					cur.Trusted = "unspecified"
				}
			case "pure":
				cur.Pure = true
			case "effects":
				cur.HasEffects = true
				r := strings.Trim(rest, "{} ")
				for _, p := range strings.Split(r, ",") {
					if p = strings.TrimSpace(p); p != "" {
						cur.Effects = append(cur.Effects, p)
					}
				}
			case "tags":
				cur.Tags = append(cur.Tags, strings.Fields(rest)...)
			default:
				if cur.Props == nil {
					cur.Props = map[string]string{}
				}
				cur.Props[kw] = rest
			}
		}
	}
	return nil
}

func specSort(s string) Sort {
	switch s {
	case "F64":
		return SF64
	case "int", "Int":
		return SInt
	case "bool", "Bool":
		return SBool
	case "string", "Str":
		return SStr
	}
	return s
}

func splitTop(s string) []string {
	var parts []string
	depth := 0
	start := 0
	for i, c := range s {
		switch c {
		case '(', '[':
			depth++
		case ')', ']':
			depth--
		case ',':
			if depth == 0 {
				parts = append(parts, strings.TrimSpace(s[start:i]))
				start = i + 1
			}
		}
	}
	parts = append(parts, strings.TrimSpace(s[start:]))
	return parts
}

func parseClause(kind, rest, file string, line int) (*Clause, error) {
	cl := &Clause{Kind: kind, File: file, Line: line}
	for {
		f := strings.Fields(rest)
		if len(f) == 0 {
			return nil, fmt.Errorf("empty clause")
		}
		if tagRe.MatchString(f[0]) {
			if f[0] == "@pinned" {
				cl.Pinned = true
			} else {
				cl.Tags = append(cl.Tags, f[0][1:])
			}
			rest = strings.TrimSpace(strings.TrimPrefix(rest, f[0]))
			continue
		}
		if m := labelRe.FindStringSubmatch(f[0]); m != nil && cl.Label == "" {
			cl.Label = m[1]
			rest = strings.TrimSpace(strings.TrimPrefix(rest, f[0]))
			continue
		}
		break
	}
	cl.Src = rest
	e, err := parseSpecExpr(rest)
	if err != nil {
		return nil, err
	}
	cl.Expr = e
	return cl, nil
}

func parseHeader(kw, rest, pkg string) (*Contract, error) {
	c := &Contract{Pkg: pkg, Header: rest}
	if kw == "typed" {
		// typed <TypeName> func(a T, b U) (r V)
		f := strings.Fields(rest)
		if len(f) < 2 {
			return nil, fmt.Errorf("bad typed header")
		}
		c.Typed = f[0]
		rest = "func _typed" + strings.TrimSpace(strings.TrimPrefix(strings.TrimSpace(strings.TrimPrefix(rest, f[0])), "func"))
	} else {
		rest = "func " + rest
	}
	// closures are named f$1, f$2 ... by go/ssa
	rest = strings.ReplaceAll(rest, "$", "ǂ")
	fset := token.NewFileSet()
	file, err := parser.ParseFile(fset, "hdr.go", "package p\n"+rest+"\n", 0)
	if err != nil {
		return nil, fmt.Errorf("bad function header %q: %v", rest, err)
	}
	fd, ok := file.Decls[0].(*ast.FuncDecl)
	if !ok {
		return nil, fmt.Errorf("bad function header %q", rest)
	}
	name := fd.Name.Name
	if fd.Recv != nil && len(fd.Recv.List) == 1 {
		r := fd.Recv.List[0]
		if len(r.Names) == 1 {
			c.RecvName = r.Names[0].Name
		}
		switch t := r.Type.(type) {
		case *ast.StarExpr:
			name = "(*" + t.X.(*ast.Ident).Name + ")." + name
		case *ast.Ident:
			name = "(" + t.Name + ")." + name
		}
	}
	c.Key = pkg + "." + strings.ReplaceAll(name, "ǂ", "$")
	if fd.Type.Params != nil {
		for _, f := range fd.Type.Params.List {
			if len(f.Names) == 0 {
				c.ParamNames = append(c.ParamNames, "_")
			}
			for _, n := range f.Names {
				c.ParamNames = append(c.ParamNames, n.Name)
			}
		}
	}
	if fd.Type.Results != nil {
		for _, f := range fd.Type.Results.List {
			if len(f.Names) == 0 {
				c.ResultNames = append(c.ResultNames, "")
			}
			for _, n := range f.Names {
				c.ResultNames = append(c.ResultNames, n.Name)
			}
		}
	}
	return c, nil
}

func (c *Contract) clauseName(cl *Clause, idx int) string {
	if cl.Label != "" {
		return cl.Label
	}
	return fmt.Sprintf("%s.%d", cl.Kind, idx+1)
}
