package main

// SMT-LIB term construction, sorts, and the mapping from Go types to sorts.

import (
	"fmt"
	"go/constant"
	"go/types"
	"hash/fnv"
	"math"
	"math/big"
	"sort"
	"strings"
)

type Sort = string

const (
	SInt   Sort = "Int"
	SBool  Sort = "Bool"
	SStr   Sort = "Str"
	SF64   Sort = "(_ FloatingPoint 11 53)"
	SSlice Sort = "Slice"
	SIface Sort = "Iface"
)

// Term is an SMT-LIB term together with its sort and (when known) its Go type.
type Term struct {
	S    string
	Sort Sort
	T    types.Type // may be nil for pure spec values
}

func mk(s string, sort Sort) Term { return Term{S: s, Sort: sort} }

func (t Term) withType(ty types.Type) Term { t.T = ty; return t }

func app(op string, args ...string) string {
	return "(" + op + " " + strings.Join(args, " ") + ")"
}

func intLit(n int64) Term {
	if n < 0 {
		return mk(fmt.Sprintf("(- %d)", -n), SInt)
	}
	return mk(fmt.Sprintf("%d", n), SInt)
}

func bigLit(n *big.Int) Term {
	if n.Sign() < 0 {
		return mk("(- "+new(big.Int).Neg(n).String()+")", SInt)
	}
	return mk(n.String(), SInt)
}

func boolLit(b bool) Term {
	if b {
		return mk("true", SBool)
	}
	return mk("false", SBool)
}

func and(ts ...string) string {
	var keep []string
	for _, t := range ts {
		if t == "true" {
			continue
		}
		if t == "false" {
			return "false"
		}
		keep = append(keep, t)
	}
	switch len(keep) {
	case 0:
		return "true"
	case 1:
		return keep[0]
	}
	return app("and", keep...)
}

func or(ts ...string) string {
	var keep []string
	for _, t := range ts {
		if t == "false" {
			continue
		}
		if t == "true" {
			return "true"
		}
		keep = append(keep, t)
	}
	switch len(keep) {
	case 0:
		return "false"
	case 1:
		return keep[0]
	}
	return app("or", keep...)
}

func not(t string) string {
	if t == "true" {
		return "false"
	}
	if t == "false" {
		return "true"
	}
	return app("not", t)
}

func implies(a, b string) string {
	if a == "true" {
		return b
	}
	if a == "false" || b == "true" {
		return "true"
	}
	return app("=>", a, b)
}

func ite(c, a, b string) string {
	if c == "true" {
		return a
	}
	if c == "false" {
		return b
	}
	if a == b {
		return a
	}
	return app("ite", c, a, b)
}

func eq(a, b string) string {
	if a == b {
		return "true"
	}
	return app("=", a, b)
}

// ---------------------------------------------------------------------------
// Universe: everything that is global to one verification condition text
// (datatype declarations, string literals, type tags, uninterpreted symbols).
// One Universe is created per function VC so that each query is self-contained.

type Universe struct {
	prog      *Program
	structs   map[string]*types.Struct // datatype name -> struct
	structOrd []string
	opaque    map[string]bool // uninterpreted sorts
	opaqueOrd []string
	strlits   map[string]string // literal -> const name
	strOrd    []string
	decls     map[string]string // symbol -> declaration text (uninterpreted funs, consts)
	declOrd   []string
	axioms    map[string]string // label -> assertion text
	axiomOrd  []string
	tags      map[string]int // dynamic type string -> tag
	tagTypes  map[int]types.Type
	fnids     map[string]int
	usedFloat bool
	usedStr   bool
}

func newUniverse(p *Program) *Universe {
	return &Universe{prog: p, structs: map[string]*types.Struct{}, opaque: map[string]bool{},
		strlits: map[string]string{}, decls: map[string]string{}, axioms: map[string]string{},
		tags: map[string]int{}, tagTypes: map[int]types.Type{}, fnids: map[string]int{}}
}

func sanitize(s string) string {
	var b strings.Builder
	for _, r := range s {
		switch {
		case r >= 'a' && r <= 'z', r >= 'A' && r <= 'Z', r >= '0' && r <= '9', r == '_':
			b.WriteRune(r)
		case r == '.' || r == '/':
			b.WriteByte('_')
		case r == '*':
			b.WriteString("P")
		case r == '[':
			b.WriteString("L")
		case r == ']':
			b.WriteString("R")
		default:
			b.WriteString(fmt.Sprintf("x%02x", r))
		}
	}
	return b.String()
}

func shortPkg(path string) string {
	const mod = "github.com/skx/evalfilter/v2"
	if path == mod {
		return "evalfilter"
	}
	if strings.HasPrefix(path, mod+"/") {
		return strings.TrimPrefix(path, mod+"/")
	}
	return path
}

func isModulePkg(p *types.Package) bool {
	return p != nil && strings.HasPrefix(p.Path(), "github.com/skx/evalfilter/v2")
}

func namedName(n *types.Named) string {
	o := n.Obj()
	if o.Pkg() == nil {
		return o.Name()
	}
	return sanitize(shortPkg(o.Pkg().Path())) + "_" + o.Name()
}

// sortOf maps a Go type to an SMT sort, declaring datatypes on demand.
func (u *Universe) sortOf(t types.Type) Sort {
	switch tt := t.(type) {
	case *types.Named:
		if st, ok := tt.Underlying().(*types.Struct); ok {
			name := namedName(tt)
			if !isModulePkg(tt.Obj().Pkg()) {
				s := "X_" + name
				if !u.opaque[s] {
					u.opaque[s] = true
					u.opaqueOrd = append(u.opaqueOrd, s)
				}
				return s
			}
			s := "S_" + name
			if _, ok := u.structs[s]; !ok {
				u.structs[s] = st
				for i := 0; i < st.NumFields(); i++ {
					u.sortOf(st.Field(i).Type())
				}
				u.structOrd = append(u.structOrd, s)
			}
			return s
		}
		return u.sortOf(tt.Underlying())
	case *types.Alias:
		return u.sortOf(types.Unalias(tt))
	case *types.Basic:
		info := tt.Info()
		switch {
		case info&types.IsBoolean != 0:
			return SBool
		case info&types.IsInteger != 0:
			return SInt
		case info&types.IsFloat != 0:
			u.usedFloat = true
			return SF64
		case info&types.IsString != 0:
			u.usedStr = true
			return SStr
		case tt.Kind() == types.UnsafePointer:
			return SInt
		case tt.Kind() == types.UntypedNil:
			return SInt
		}
		return SInt
	case *types.Pointer, *types.Map, *types.Chan, *types.Signature, *types.Array:
		return SInt
	case *types.Slice:
		return SSlice
	case *types.Interface:
		return SIface
	case *types.Struct:
		// anonymous struct: name by its string
		s := "S_anon_" + sanitize(tt.String())
		if _, ok := u.structs[s]; !ok {
			u.structs[s] = tt
			for i := 0; i < tt.NumFields(); i++ {
				u.sortOf(tt.Field(i).Type())
			}
			u.structOrd = append(u.structOrd, s)
		}
		return s
	case *types.Tuple:
		return "TUPLE"
	case *types.TypeParam:
		return SInt
	}
	panic(fmt.Sprintf("sortOf: unsupported type %T %v", t, t))
}

func sortKey(s Sort) string {
	return sanitize(strings.NewReplacer("(", "", ")", "", " ", "_").Replace(s))
}

// zero value of a sort / type
func (u *Universe) zero(t types.Type) Term {
	s := u.sortOf(t)
	return mk(u.zeroOfSort(s, t), s).withType(t)
}

func (u *Universe) zeroOfSort(s Sort, t types.Type) string {
	switch s {
	case SInt:
		return "0"
	case SBool:
		return "false"
	case SStr:
		return u.strLit("")
	case SF64:
		return "(_ +zero 11 53)"
	case SSlice:
		return "(mk-slice 0 0 0 0)"
	case SIface:
		return "(mk-iface 0 0)"
	}
	if strings.HasPrefix(s, "S_") {
		st := u.structs[s]
		var args []string
		for i := 0; i < st.NumFields(); i++ {
			ft := st.Field(i).Type()
			args = append(args, u.zeroOfSort(u.sortOf(ft), ft))
		}
		if len(args) == 0 {
			return "mk-" + s
		}
		return app("mk-"+s, args...)
	}
	if strings.HasPrefix(s, "X_") {
		u.declare("zero_"+s, fmt.Sprintf("(declare-const zero_%s %s)", s, s))
		return "zero_" + s
	}
	panic("zeroOfSort " + s)
}

func (u *Universe) declare(sym, text string) {
	if _, ok := u.decls[sym]; !ok {
		u.decls[sym] = text
		u.declOrd = append(u.declOrd, sym)
	}
}

func (u *Universe) axiom(label, text string) {
	if _, ok := u.axioms[label]; !ok {
		u.axioms[label] = text
		u.axiomOrd = append(u.axiomOrd, label)
	}
}

func (u *Universe) strLit(s string) string {
	u.usedStr = true
	if n, ok := u.strlits[s]; ok {
		return n
	}
	n := fmt.Sprintf("str_%d", len(u.strOrd))
	if s == "" {
		n = "str_empty"
	}
	u.strlits[s] = n
	u.strOrd = append(u.strOrd, s)
	return n
}

// tagOf assigns a small positive integer to every dynamic (concrete) type.
func (u *Universe) tagOf(t types.Type) int {
	key := types.TypeString(t, nil)
	if n, ok := u.prog.tagTable[key]; ok {
		u.tags[key] = n
		u.tagTypes[n] = t
		return n
	}
	// a tag that does not depend on the order in which types are met (queries must be reproducible
	// for the verdict cache): a hash of the type's name, probed on the rare collision
	h := fnv.New32a()
	h.Write([]byte(key))
	n := 1000 + int(h.Sum32()%1000000)
	for {
		if _, used := u.prog.tagTypes[n]; !used {
			break
		}
		n++
	}
	u.prog.tagTable[key] = n
	u.prog.tagTypes[n] = t
	u.tags[key] = n
	u.tagTypes[n] = t
	return n
}

// uninterpreted function, declared on demand
func (u *Universe) ufun(name string, args []Sort, ret Sort) string {
	u.declare(name, fmt.Sprintf("(declare-fun %s (%s) %s)", name, strings.Join(args, " "), ret))
	return name
}

// box/unbox for non-pointer values stored in interfaces
func (u *Universe) box(t types.Type, v Term) string {
	s := u.sortOf(t)
	if s == SInt {
		return v.S
	}
	k := sortKey(s)
	u.ufun("box_"+k, []Sort{s}, SInt)
	u.ufun("unbox_"+k, []Sort{SInt}, s)
	u.axiom("unbox_"+k, fmt.Sprintf("(assert (forall ((x %s)) (! (= (unbox_%s (box_%s x)) x) :pattern ((box_%s x)))))", s, k, k, k))
	return app("box_"+k, v.S)
}

func (u *Universe) unbox(t types.Type, v string) Term {
	s := u.sortOf(t)
	if s == SInt {
		return mk(v, SInt).withType(t)
	}
	k := sortKey(s)
	u.box(t, mk(u.zeroOfSort(s, t), s)) // make sure symbols exist
	return mk(app("unbox_"+k, v), s).withType(t)
}

func isPointerLike(t types.Type) bool {
	switch t.Underlying().(type) {
	case *types.Pointer, *types.Map, *types.Chan, *types.Signature:
		return true
	}
	return false
}

// constant -> term
func (u *Universe) constTerm(val constant.Value, t types.Type) Term {
	s := u.sortOf(t)
	if val == nil {
		return mk(u.zeroOfSort(s, t), s).withType(t)
	}
	switch s {
	case SBool:
		return boolLit(constant.BoolVal(val)).withType(t)
	case SInt:
		if val.Kind() == constant.Int {
			if bi, ok := constant.Val(val).(*big.Int); ok {
				return bigLit(bi).withType(t)
			}
			i, _ := constant.Int64Val(val)
			return intLit(i).withType(t)
		}
		if val.Kind() == constant.Float {
			f, _ := constant.Float64Val(val)
			return intLit(int64(f)).withType(t)
		}
	case SStr:
		return mk(u.strLit(constant.StringVal(val)), SStr).withType(t)
	case SF64:
		f, _ := constant.Float64Val(constant.ToFloat(val))
		return mk(fpLit(f), SF64).withType(t)
	}
	panic(fmt.Sprintf("constTerm %v %v", val, t))
}

func fpLit(f float64) string {
	if math.IsNaN(f) {
		return "(_ NaN 11 53)"
	}
	if math.IsInf(f, 1) {
		return "(_ +oo 11 53)"
	}
	if math.IsInf(f, -1) {
		return "(_ -oo 11 53)"
	}
	bits := math.Float64bits(f)
	sign := bits >> 63
	exp := (bits >> 52) & 0x7ff
	man := bits & ((1 << 52) - 1)
	return fmt.Sprintf("(fp #b%b #b%011b #b%052b)", sign, exp, man)
}

// preamble renders all declarations collected so far.
func (u *Universe) preamble() string {
	var b strings.Builder
	b.WriteString("(set-logic ALL)\n")
	b.WriteString("(declare-sort Str 0)\n")
	b.WriteString("(declare-datatypes ((Slice 0)) (((mk-slice (s.arr Int) (s.off Int) (s.len Int) (s.cap Int)))))\n")
	b.WriteString("(declare-datatypes ((Iface 0)) (((mk-iface (i.tag Int) (i.val Int)))))\n")
	for _, s := range u.opaqueOrd {
		fmt.Fprintf(&b, "(declare-sort %s 0)\n", s)
	}
	for _, s := range u.structOrd {
		st := u.structs[s]
		var fs []string
		for i := 0; i < st.NumFields(); i++ {
			fs = append(fs, fmt.Sprintf("(%s.%s %s)", s, st.Field(i).Name(), u.sortOf(st.Field(i).Type())))
		}
		if len(fs) == 0 {
			fmt.Fprintf(&b, "(declare-datatypes ((%s 0)) (((mk-%s))))\n", s, s)
		} else {
			fmt.Fprintf(&b, "(declare-datatypes ((%s 0)) (((mk-%s %s))))\n", s, s, strings.Join(fs, " "))
		}
	}
	// strings
	if u.usedStr {
		u.strPreamble(&b)
	}
	u.declPreamble(&b)
	return b.String()
}

func (u *Universe) strPreamble(b *strings.Builder) {
	b.WriteString("(declare-fun gs.len (Str) Int)\n")
	b.WriteString("(declare-fun gs.cat (Str Str) Str)\n")
	b.WriteString("(declare-fun gs.lt (Str Str) Bool)\n")
	b.WriteString("(assert (forall ((s Str)) (! (>= (gs.len s) 0) :pattern ((gs.len s)))))\n")
	b.WriteString("(assert (forall ((a Str) (b Str)) (! (= (gs.len (gs.cat a b)) (+ (gs.len a) (gs.len b))) :pattern ((gs.cat a b)))))\n")
	b.WriteString("(assert (forall ((a Str)) (! (not (gs.lt a a)) :pattern ((gs.lt a a)))))\n")
	b.WriteString("(assert (forall ((a Str) (b Str)) (! (or (= a b) (gs.lt a b) (gs.lt b a)) :pattern ((gs.lt a b)))))\n")
	b.WriteString("(assert (forall ((a Str) (b Str)) (! (not (and (gs.lt a b) (gs.lt b a))) :pattern ((gs.lt a b)))))\n")
	var names []string
	for _, s := range u.strOrd {
		n := u.strlits[s]
		names = append(names, n)
		fmt.Fprintf(b, "(declare-const %s Str) ; %q\n", n, trunc(s, 60))
		fmt.Fprintf(b, "(assert (= (gs.len %s) %d))\n", n, len(s))
	}
	if _, ok := u.strlits[""]; ok {
		b.WriteString("(assert (forall ((s Str)) (! (=> (= (gs.len s) 0) (= s str_empty)) :pattern ((gs.len s)))))\n")
		b.WriteString("(assert (forall ((s Str)) (! (= (gs.cat s str_empty) s) :pattern ((gs.cat s str_empty)))))\n")
		b.WriteString("(assert (forall ((s Str)) (! (= (gs.cat str_empty s) s) :pattern ((gs.cat str_empty s)))))\n")
	}
	if len(names) > 1 {
		fmt.Fprintf(b, "(assert (distinct %s))\n", strings.Join(names, " "))
		// order between literals is the Go order
		if len(names) <= 40 {
			lits := append([]string{}, u.strOrd...)
			sort.Strings(lits)
			for i := 0; i+1 < len(lits); i++ {
				fmt.Fprintf(b, "(assert (gs.lt %s %s))\n", u.strlits[lits[i]], u.strlits[lits[i+1]])
			}
			b.WriteString("(assert (forall ((a Str) (b Str) (c Str)) (! (=> (and (gs.lt a b) (gs.lt b c)) (gs.lt a c)) :pattern ((gs.lt a b) (gs.lt b c)))))\n")
		}
	}
}

// symbolsOf: the identifier-like tokens of an SMT text
func symbolsOf(text string, into map[string]bool) {
	start := -1
	for i := 0; i <= len(text); i++ {
		var c byte = ' '
		if i < len(text) {
			c = text[i]
		}
		if c == ' ' || c == '(' || c == ')' || c == '\n' {
			if start >= 0 {
				into[text[start:i]] = true
				start = -1
			}
		} else if start < 0 {
			start = i
		}
	}
}

// declPreambleFor: only the declarations and axioms relevant to the symbols used by a query
// (an axiom is relevant when one of the declared symbols it is about is used; relevance is closed
// under the symbols the included axioms mention)
func (u *Universe) declPreambleFor(b *strings.Builder, used map[string]bool) {
	axSyms := map[string]map[string]bool{}
	for _, l := range u.axiomOrd {
		m := map[string]bool{}
		symbolsOf(u.axioms[l], m)
		keep := map[string]bool{}
		for sym := range m {
			if _, declared := u.decls[sym]; declared {
				keep[sym] = true
			}
		}
		axSyms[l] = keep
	}
	inc := map[string]bool{}
	for changed := true; changed; {
		changed = false
		for _, l := range u.axiomOrd {
			if inc[l] {
				continue
			}
			rel := false
			key := ""
			if strings.HasPrefix(l, "wf.") {
				key = strings.TrimPrefix(l, "wf.")
			} else if strings.HasPrefix(l, "msize.nonneg.") {
				key = strings.TrimPrefix(l, "msize.nonneg.")
			} else if strings.HasPrefix(l, "alloc.nonneg.") {
				key = strings.TrimPrefix(l, "alloc.nonneg.")
			}
			if key != "" {
				rel = used[key]
			} else {
				if len(axSyms[l]) == 0 {
					rel = true
				}
				for sym := range axSyms[l] {
					if used[sym] {
						rel = true
					}
				}
			}
			if rel {
				inc[l] = true
				changed = true
				for sym := range axSyms[l] {
					used[sym] = true
				}
			}
		}
	}
	b.WriteString("(declare-fun godiv (Int Int) Int)\n(declare-fun gorem (Int Int) Int)\n")
	for _, sym := range u.declOrd {
		if used[sym] {
			b.WriteString(u.decls[sym])
			b.WriteString("\n")
		}
	}
	for _, l := range u.axiomOrd {
		if inc[l] {
			b.WriteString(u.axioms[l])
			b.WriteString(" ; ")
			b.WriteString(l)
			b.WriteString("\n")
		}
	}
}

// preambleFor: the preamble restricted to what a query (its body text) can use
func (u *Universe) preambleFor(body string) string {
	used := map[string]bool{}
	symbolsOf(body, used)
	var b strings.Builder
	full := u.preamble()
	// everything up to the declarations (sorts, datatypes, strings) is kept as is
	cut := strings.Index(full, "(declare-fun godiv ")
	if cut < 0 {
		return full
	}
	b.WriteString(full[:cut])
	// declarations may mention other declared symbols only through axioms; definitions (define-fun) may too
	for changed := true; changed; {
		changed = false
		for _, sym := range u.declOrd {
			if used[sym] && strings.HasPrefix(u.decls[sym], "(define-fun") {
				m := map[string]bool{}
				symbolsOf(u.decls[sym], m)
				for k := range m {
					if !used[k] {
						used[k] = true
						changed = true
					}
				}
			}
		}
	}
	u.declPreambleFor(&b, used)
	return b.String()
}

func (u *Universe) declPreamble(b *strings.Builder) {
	b.WriteString("(declare-fun godiv (Int Int) Int)\n(declare-fun gorem (Int Int) Int)\n")
	for _, sym := range u.declOrd {
		b.WriteString(u.decls[sym])
		b.WriteString("\n")
	}
	for _, l := range u.axiomOrd {
		b.WriteString(u.axioms[l])
		b.WriteString(" ; ")
		b.WriteString(l)
		b.WriteString("\n")
	}
}

func trunc(s string, n int) string {
	s = strings.ReplaceAll(s, "\n", "\\n")
	if len(s) > n {
		return s[:n] + "..."
	}
	return s
}

// wrapAddSub wraps the result of one addition/subtraction/negation of in-range operands
// (off by at most one modulus), avoiding mod.
func wrapAddSub(t string, ty types.Type) string {
	lo, hi, ok := intRange(ty)
	if !ok {
		return t
	}
	b := ty.Underlying().(*types.Basic)
	bits := map[types.BasicKind]uint{types.Int: 64, types.Int64: 64, types.Int32: 32, types.Int16: 16, types.Int8: 8,
		types.Uint: 64, types.Uint64: 64, types.Uintptr: 64, types.Uint32: 32, types.Uint16: 16, types.Uint8: 8, types.UntypedInt: 64, types.UntypedRune: 64}[b.Kind()]
	mod := new(big.Int).Lsh(big.NewInt(1), bits).String()
	return fmt.Sprintf("(let ((w!x %s)) (ite (> w!x %s) (- w!x %s) (ite (< w!x %s) (+ w!x %s) w!x)))", t, hi, mod, lo, mod)
}

// wrap an integer term to the range of a Go integer type.
func wrapInt(t string, ty types.Type) string {
	b, ok := ty.Underlying().(*types.Basic)
	if !ok {
		return t
	}
	var bits int
	signed := true
	switch b.Kind() {
	case types.Int, types.Int64:
		bits = 64
	case types.Int32:
		bits = 32
	case types.Int16:
		bits = 16
	case types.Int8:
		bits = 8
	case types.Uint, types.Uint64, types.Uintptr:
		bits, signed = 64, false
	case types.Uint32:
		bits, signed = 32, false
	case types.Uint16:
		bits, signed = 16, false
	case types.Uint8:
		bits, signed = 8, false
	default:
		return t
	}
	mod := new(big.Int).Lsh(big.NewInt(1), uint(bits)).String()
	if !signed {
		return fmt.Sprintf("(mod %s %s)", t, mod)
	}
	half := new(big.Int).Lsh(big.NewInt(1), uint(bits-1)).String()
	return fmt.Sprintf("(- (mod (+ %s %s) %s) %s)", t, half, mod, half)
}

func intRange(ty types.Type) (lo, hi string, ok bool) {
	b, isb := ty.Underlying().(*types.Basic)
	if !isb || b.Info()&types.IsInteger == 0 {
		return "", "", false
	}
	var bits int
	signed := true
	switch b.Kind() {
	case types.Int, types.Int64, types.UntypedInt, types.UntypedRune:
		bits = 64
	case types.Int32:
		bits = 32
	case types.Int16:
		bits = 16
	case types.Int8:
		bits = 8
	case types.Uint, types.Uint64, types.Uintptr:
		bits, signed = 64, false
	case types.Uint32:
		bits, signed = 32, false
	case types.Uint16:
		bits, signed = 16, false
	case types.Uint8:
		bits, signed = 8, false
	default:
		return "", "", false
	}
	if signed {
		h := new(big.Int).Lsh(big.NewInt(1), uint(bits-1))
		return "(- " + h.String() + ")", new(big.Int).Sub(h, big.NewInt(1)).String(), true
	}
	h := new(big.Int).Lsh(big.NewInt(1), uint(bits))
	return "0", new(big.Int).Sub(h, big.NewInt(1)).String(), true
}

// elt(row, off, i) = row[off+i]; used for every slice element read so that quantified facts
// about slice contents have a usable trigger.
func (u *Universe) elt(es Sort) string {
	name := "elt_" + sortKey(es)
	u.ufun(name, []Sort{fmt.Sprintf("(Array Int %s)", es), SInt, SInt}, es)
	u.axiom(name, fmt.Sprintf("(assert (forall ((r (Array Int %s)) (o Int) (i Int)) (! (= (%s r o i) (select r (+ o i))) :pattern ((%s r o i)))))", es, name, name))
	return name
}
