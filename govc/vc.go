package main

// VC: the verification-condition text of one function, the heap model
// (Burstall-Bornat components with versions), obligations.

import (
	"crypto/sha256"
	"encoding/hex"
	"fmt"
	"go/token"
	"go/types"
	"os"
	"regexp"
	"sort"
	"strings"
	"sync"

	"golang.org/x/tools/go/ssa"
)

type Heap struct {
	m      map[string]string // component -> current version term
	epoch  int               // bumped by a havoc-everything
	formal map[string]bool   // non-nil: a formal heap (parameters of a recursive spec function); records the components read
}

func (h *Heap) clone() *Heap {
	n := &Heap{m: make(map[string]string, len(h.m)), epoch: h.epoch, formal: h.formal}
	for k, v := range h.m {
		n.m[k] = v
	}
	return n
}

type pathSel struct {
	sort  Sort // datatype sort of the enclosing struct value
	st    *types.Struct
	field int
	ext   string // non-empty: accessor function of an opaque (external) struct
}

type Addr struct {
	comp  string
	kind  byte   // 'f' field of object ref, 'e' slice/array element, 'c' cell, 'g' global scalar
	ref   string // object ref / array id / cell ref
	idx   string // element index relative to off (kind 'e')
	off   string // slice offset (kind 'e')
	top   Sort   // sort of the value stored directly in the component
	topT  types.Type
	path  []pathSel
	typ   types.Type // type of the addressed location
	fresh bool       // base object allocated in this function
}

type Obligation struct {
	Name   string
	Kind   string // ensures requires nopanic invariant step exit decreases frame call-requires call-panics cover
	Tags   []string
	Prefix int // number of body lines that form the context
	Goal   string
	Src    string
	Pos    token.Position
	Fn     string
	Pinned bool
	Cover  bool // vacuity guard: "proved" means the point is unreachable
	// results
	Status    string // proved failed unknown error
	Solver    string
	Time      float64
	Model     string
	Detail    string
	Query     string
	Known     string
	Candidate bool // the model comes from the quantifier-free relaxation
	Block     *ssa.BasicBlock
	Splits    []string    // case-split hints (Boolean terms defined in the context): tried when the plain query is not decided
	EnvFn     func() *Env // environment in which a known-finding region is evaluated (loop clauses: iteration start)
}

type VC struct {
	viaDispatch int                    // > 0 while the implementers of an interface method are applied (never inlined)
	inlining    map[*ssa.Function]bool // functions whose bodies are being executed in place
	inlined     map[string]bool
	curHeap     *Heap // the state before the instruction being executed (panic exits are judged in it)
	inPanicExit bool
	blockReach  map[*ssa.BasicBlock]string // path condition of each block executed so far (merged blocks)
	covers      []*Obligation
	droppedInv  map[*Clause]bool
	notes       []string
	prog        *Program
	u           *Universe
	fn          *ssa.Function
	key         string
	contract    *Contract
	lines       []string
	obls        []*Obligation
	compSort    map[string]Sort
	compType    map[string]types.Type // Go type of the values stored in the component
	nver        int
	nfresh      int
	vals        map[ssa.Value]Term
	tuples      map[ssa.Value][]Term
	addrs       map[ssa.Value]*Addr
	closures    map[ssa.Value]*ssa.MakeClosure

	reach    map[*ssa.BasicBlock]string
	heapOut  map[*ssa.BasicBlock]*Heap
	heapIn   map[*ssa.BasicBlock]*Heap
	edge     map[[2]*ssa.BasicBlock]string
	loopHdr  map[*ssa.BasicBlock]int // header -> ordinal (1-based)
	loopBody map[*ssa.BasicBlock]map[*ssa.BasicBlock]bool
	hdrHeap  map[*ssa.BasicBlock]*Heap // heap at loop head (after havoc)
	hdrPhi   map[*ssa.BasicBlock]map[*ssa.Phi]Term

	entryHeap         *Heap
	params            map[string]Term
	panicOK           string // condition (over entry state) under which this function may panic
	counters          map[string]int
	nonNil            map[string][]*ssa.BasicBlock
	unsupported       []string
	assumptions       map[string]bool
	calleesNoContract map[string]bool
	trusted           map[string]bool
	curBlock          *ssa.BasicBlock
	curPos            token.Pos
	mode              string // "full" or "safety"
	defers            []*ssa.Defer
	pendingWf         [][2]string
	recDefs           map[string]*recDef
	mu                sync.Mutex
	storeHeap         *Heap
	tagBlock          *ssa.BasicBlock // while a latch block is executed once per predecessor: that predecessor
	dupSfx            string
	dupRet            int
	fp                string
	lineTags          [][]string // property tags of the contract clause a line was assumed from (nil: structural line)
	curTags           []string
	splitTerms        []splitTerm
	panicking         string // while a deferred closure is inlined: "true"/"false" - is a panic in flight
	recoverEdges      []recoverEdge
	lastCallReach     string
	lightMode         bool
	lineBlock         []int
	anc               map[*ssa.BasicBlock]map[int]bool
}

func newVC(p *Program, fn *ssa.Function) *VC {
	vc := &VC{prog: p, u: newUniverse(p), fn: fn, key: p.keyOf[fn], contract: p.contractFor(fn),
		compSort: map[string]Sort{}, compType: map[string]types.Type{}, vals: map[ssa.Value]Term{}, tuples: map[ssa.Value][]Term{},
		addrs: map[ssa.Value]*Addr{}, closures: map[ssa.Value]*ssa.MakeClosure{},
		reach: map[*ssa.BasicBlock]string{}, heapOut: map[*ssa.BasicBlock]*Heap{}, heapIn: map[*ssa.BasicBlock]*Heap{},
		edge: map[[2]*ssa.BasicBlock]string{}, loopHdr: map[*ssa.BasicBlock]int{}, loopBody: map[*ssa.BasicBlock]map[*ssa.BasicBlock]bool{},
		hdrHeap: map[*ssa.BasicBlock]*Heap{}, hdrPhi: map[*ssa.BasicBlock]map[*ssa.Phi]Term{},
		params: map[string]Term{}, counters: map[string]int{}, nonNil: map[string][]*ssa.BasicBlock{},
		assumptions: map[string]bool{}, calleesNoContract: map[string]bool{}, trusted: map[string]bool{}, inlined: map[string]bool{}}
	return vc
}

func (vc *VC) emit(s string) {
	vc.lines = append(vc.lines, s)
	vc.lineTags = append(vc.lineTags, vc.curTags)
	bi := -1
	if vc.tagBlock != nil {
		bi = vc.tagBlock.Index
	} else if vc.curBlock != nil {
		bi = vc.curBlock.Index
	}
	vc.lineBlock = append(vc.lineBlock, bi)
}

// ancestors of block b in the loop-cut CFG (blocks from which b is reachable), including b
func (vc *VC) ancestors(b *ssa.BasicBlock) map[int]bool {
	if vc.anc == nil {
		vc.anc = map[*ssa.BasicBlock]map[int]bool{}
	}
	if a, ok := vc.anc[b]; ok {
		return a
	}
	a := map[int]bool{b.Index: true}
	vc.anc[b] = a
	if b == vc.fn.Recover || (vc.fn.Recover != nil && len(b.Preds) == 0 && b != vc.fn.Blocks[0]) {
		// the recover block is entered from the panic paths of the whole function
		for _, x := range vc.fn.Blocks {
			a[x.Index] = true
		}
		return a
	}
	for _, p := range b.Preds {
		if b.Dominates(p) {
			continue // back edge
		}
		for k := range vc.ancestors(p) {
			a[k] = true
		}
	}
	return a
}

func (vc *VC) freshName(prefix string) string {
	vc.nfresh++
	return fmt.Sprintf("%s!%d", sanitize(prefix), vc.nfresh)
}

func (vc *VC) fresh(prefix string, s Sort) string {
	n := vc.freshName(prefix)
	vc.emit(fmt.Sprintf("(declare-const %s %s)", n, s))
	return n
}

func (vc *VC) define(prefix string, s Sort, term string) string {
	// short terms are not worth a definition
	if len(term) < 24 && !strings.Contains(term, " ") {
		return term
	}
	n := vc.freshName(prefix)
	if iteConst && s != SBool && strings.HasPrefix(term, "(ite ") {
		// a conditional value is named by a constant, not by a macro: solvers expand macros inside
		// quantifier patterns, and a pattern with a conditional in it is rejected (z3 4.8) or ignored (z3 5)
		vc.emit(fmt.Sprintf("(declare-const %s %s)", n, s))
		vc.emit(fmt.Sprintf("(assert (= %s %s))", n, term))
		return n
	}
	vc.emit(fmt.Sprintf("(define-fun %s () %s %s)", n, s, term))
	return n
}

var iteConst = os.Getenv("GOVC_ITECONST") != ""

func (vc *VC) assume(reach, f string) {
	if f == "true" {
		return
	}
	vc.emit(fmt.Sprintf("(assert %s)", cse(implies(reach, f))))
}

// ---- components ----------------------------------------------------------

func (vc *VC) compDecl(comp string, s Sort) {
	if old, ok := vc.compSort[comp]; ok {
		if old != s {
			panic(fmt.Sprintf("component %s used with sorts %s and %s", comp, old, s))
		}
		return
	}
	vc.compSort[comp] = s
}

// current version of a component in heap h (declaring the epoch-initial version lazily)
func (vc *VC) get(h *Heap, comp string) string {
	if h.formal != nil {
		h.formal[comp] = true
		return "H!" + comp
	}
	if v, ok := h.m[comp]; ok {
		return v
	}
	s, ok := vc.compSort[comp]
	if !ok {
		panic("undeclared component " + comp)
	}
	name := fmt.Sprintf("%s@e%d", comp, h.epoch)
	vc.u.declare(name, fmt.Sprintf("(declare-const %s %s)", name, s))
	if comp == "$alloc" {
		vc.u.axiom("alloc.nonneg."+name, fmt.Sprintf("(assert (>= %s 0))", name))
	}
	if comp == "Msize" {
		vc.u.axiom("msize.nonneg."+name, fmt.Sprintf("(assert (forall ((m Int)) (! (>= (select %s m) 0) :pattern ((select %s m)))))", name, name))
	}
	if comp != "$alloc" {
		ea := fmt.Sprintf("$alloc@e%d", h.epoch)
		vc.u.declare(ea, fmt.Sprintf("(declare-const %s Int)", ea))
		vc.u.axiom("alloc.nonneg."+ea, fmt.Sprintf("(assert (>= %s 0))", ea))
		if ax := vc.wfAxiom(comp, name, ea); ax != "" {
			vc.u.axiom("wf."+name, ax)
		}
	}
	return name
}

// wfOf: the type invariant of a value of Go type t held in a heap whose allocation watermark is alloc
func (vc *VC) wfOf(v string, t types.Type, alloc string, depth int) string {
	if t == nil || depth > 3 {
		return "true"
	}
	switch tt := t.Underlying().(type) {
	case *types.Slice:
		return and(app("<=", app("s.arr", v), alloc), app(">=", app("s.arr", v), "0"), app(">=", app("s.off", v), "0"), app(">=", app("s.len", v), "0"),
			app(">=", app("s.cap", v), app("s.len", v)), app("<=", app("s.cap", v), "9223372036854775807"), implies(eq(app("s.arr", v), "0"), eq(app("s.cap", v), "0")))
	case *types.Interface:
		return and(app(">=", app("i.tag", v), "0"), app(">=", app("i.val", v), "0"), app("<=", app("i.val", v), alloc), implies(eq(app("i.tag", v), "0"), eq(app("i.val", v), "0")))
	case *types.Pointer, *types.Map, *types.Chan, *types.Signature:
		return and(app(">=", v, "0"), app("<=", v, alloc))
	case *types.Basic:
		if lo, hi, ok := intRange(t); ok {
			return and(app("<=", lo, v), app("<=", v, hi))
		}
	case *types.Struct:
		if !isModuleStruct(t) {
			return "true"
		}
		s := vc.u.sortOf(t)
		var parts []string
		for i := 0; i < tt.NumFields(); i++ {
			parts = append(parts, vc.wfOf(app(s+"."+tt.Field(i).Name(), v), tt.Field(i).Type(), alloc, depth+1))
		}
		return and(parts...)
	}
	return "true"
}

func (vc *VC) wfAxiom(comp, version, alloc string) string {
	t := vc.compType[comp]
	if t == nil {
		return ""
	}
	s := vc.compSort[comp]
	if !strings.HasPrefix(comp, "G_") {
		// rows above the watermark of this version belong to objects allocated later: a component that is
		// only ever written at objects allocated after this version keeps the version (no havoc), and the
		// references such objects hold are bounded by later watermarks, not by this one
		alloc = fmt.Sprintf("(ite (<= r %s) %s 9223372036854775807)", alloc, alloc)
	}
	switch {
	case strings.HasPrefix(comp, "E_"):
		w := vc.wfOf(app("select", app("select", version, "r"), "j"), t, alloc, 0)
		if w == "true" {
			return ""
		}
		return fmt.Sprintf("(assert (forall ((r Int) (j Int)) (! %s :pattern ((select (select %s r) j)))))", w, version)
	case strings.HasPrefix(comp, "Mv_"):
		ks := firstSort(strings.TrimPrefix(strings.TrimPrefix(s, "(Array Int (Array "), ""))
		w := vc.wfOf(app("select", app("select", version, "r"), "k"), t, alloc, 0)
		if w == "true" {
			return ""
		}
		return fmt.Sprintf("(assert (forall ((r Int) (k %s)) (! %s :pattern ((select (select %s r) k)))))", ks, w, version)
	case strings.HasPrefix(comp, "G_"):
		w := vc.wfOf(version, t, alloc, 0)
		if w == "true" {
			return ""
		}
		return fmt.Sprintf("(assert %s)", w)
	case strings.HasPrefix(s, "(Array Int "):
		w := vc.wfOf(app("select", version, "r"), t, alloc, 0)
		if w == "true" {
			return ""
		}
		return fmt.Sprintf("(assert (forall ((r Int)) (! %s :pattern ((select %s r)))))", w, version)
	}
	return ""
}

func (vc *VC) set(h *Heap, comp string, term string) {
	s := vc.compSort[comp]
	h.m[comp] = vc.define(comp, s, term)
}

func (vc *VC) havoc(h *Heap, comp string) string {
	s := vc.compSort[comp]
	n := vc.fresh(comp, s)
	h.m[comp] = n
	if comp == "Msize" {
		vc.emit(fmt.Sprintf("(assert (forall ((m Int)) (! (>= (select %s m) 0) :pattern ((select %s m)))))", n, n))
	}
	vc.pendingWf = append(vc.pendingWf, [2]string{comp, n})
	return n
}

// flushWf emits the type-invariant axioms of freshly havocked component versions, relative to the
// allocation watermark of heap h (which must be the state the havocked versions belong to).
func (vc *VC) flushWf(h *Heap) {
	al := vc.get(h, "$alloc")
	for _, p := range vc.pendingWf {
		if ax := vc.wfAxiom(p[0], p[1], al); ax != "" {
			vc.emit(ax)
		}
	}
	vc.pendingWf = nil
}

func (vc *VC) havocAll(h *Heap) {
	if os.Getenv("GOVC_TRACEHAVOC") != "" {
		fmt.Fprintf(os.Stderr, "havocAll in %s at %v\n", vc.key, vc.prog.prog.Fset.Position(vc.curPos))
	}
	alloc := vc.get(h, "$alloc")
	vc.nver++
	h.m = map[string]string{}
	h.epoch = 1000 + vc.nver
	n := fmt.Sprintf("$alloc@e%d", h.epoch)
	vc.u.declare(n, fmt.Sprintf("(declare-const %s Int)", n))
	vc.emit(fmt.Sprintf("(assert (>= %s %s))", n, alloc))
	h.m["$alloc"] = n
}

func fieldComp(named *types.Named, field string) string {
	return "F_" + namedName(named) + "_" + field
}

func (vc *VC) fieldCompOf(structT types.Type, idx int) (comp string, fsort Sort, ft types.Type) {
	st := structT.Underlying().(*types.Struct)
	f := st.Field(idx)
	var name string
	if n, ok := types.Unalias(structT).(*types.Named); ok {
		name = fieldComp(n, f.Name())
	} else {
		name = "F_anon_" + sanitize(structT.String()) + "_" + f.Name()
	}
	fsort = vc.u.sortOf(f.Type())
	vc.compDecl(name, fmt.Sprintf("(Array Int %s)", fsort))
	vc.compType[name] = f.Type()
	return name, fsort, f.Type()
}

func (vc *VC) elemComp(elem types.Type) (comp string, esort Sort) {
	esort = vc.u.sortOf(elem)
	comp = "E_" + typeKey(elem, esort)
	vc.compDecl(comp, fmt.Sprintf("(Array Int (Array Int %s))", esort))
	vc.compType[comp] = elem
	return
}

func (vc *VC) cellComp(t types.Type) (comp string, s Sort) {
	s = vc.u.sortOf(t)
	comp = "C_" + typeKey(t, s)
	vc.compDecl(comp, fmt.Sprintf("(Array Int %s)", s))
	vc.compType[comp] = t
	return
}

func (vc *VC) mapComps(m *types.Map) (has, val string, ks, vs Sort) {
	ks = vc.u.sortOf(m.Key())
	vs = vc.u.sortOf(m.Elem())
	k := typeKey(m.Key(), ks) + "_" + typeKey(m.Elem(), vs)
	has, val = "Mh_"+k, "Mv_"+k
	vc.compDecl(has, fmt.Sprintf("(Array Int (Array %s Bool))", ks))
	vc.compDecl(val, fmt.Sprintf("(Array Int (Array %s %s))", ks, vs))
	vc.compType[val] = m.Elem()
	vc.compDecl("Msize", "(Array Int Int)")
	return
}

func globalComp(g *ssa.Global) string {
	return "G_" + sanitize(shortPkg(g.Pkg.Pkg.Path())) + "_" + g.Name()
}

func isModuleStruct(t types.Type) bool {
	t = types.Unalias(t)
	switch tt := t.(type) {
	case *types.Named:
		_, ok := tt.Underlying().(*types.Struct)
		return ok && isModulePkg(tt.Obj().Pkg())
	case *types.Struct:
		return true
	}
	return false
}

// ---- memory access --------------------------------------------------------

func (vc *VC) loadTop(h *Heap, a *Addr) string {
	c := vc.get(h, a.comp)
	switch a.kind {
	case 'g':
		return c
	case 'e':
		return app(vc.u.elt(a.top), app("select", c, a.ref), a.off, a.idx)
	default:
		return app("select", c, a.ref)
	}
}

func (vc *VC) load(h *Heap, a *Addr) Term {
	v := vc.loadTop(h, a)
	for _, p := range a.path {
		if p.ext != "" {
			v = app(p.ext, v)
			continue
		}
		v = app(fmt.Sprintf("%s.%s", p.sort, p.st.Field(p.field).Name()), v)
	}
	return mk(v, vc.u.sortOf(a.typ)).withType(a.typ)
}

func (vc *VC) updatePath(top string, path []pathSel, v string) string {
	if len(path) == 0 {
		return v
	}
	p := path[0]
	if p.ext != "" {
		panic(unsupportedErr("store into a field of an external struct"))
	}
	var args []string
	for i := 0; i < p.st.NumFields(); i++ {
		acc := app(fmt.Sprintf("%s.%s", p.sort, p.st.Field(i).Name()), top)
		if i == p.field {
			args = append(args, vc.updatePath(acc, path[1:], v))
		} else {
			args = append(args, acc)
		}
	}
	return app("mk-"+p.sort, args...)
}

func (vc *VC) store(h *Heap, a *Addr, v string) {
	if name, ok := vc.prog.contracts.countStores[a.comp]; ok && len(a.path) == 0 {
		g := "Gcnt_" + name
		vc.compDecl(g, SInt)
		vc.set(h, g, app("+", vc.get(h, g), "1"))
	}
	c := vc.get(h, a.comp)
	nv := v
	if len(a.path) > 0 {
		nv = vc.updatePath(vc.loadTop(h, a), a.path, v)
	}
	switch a.kind {
	case 'g':
		vc.set(h, a.comp, nv)
	case 'e':
		vc.set(h, a.comp, app("store", c, a.ref, app("store", app("select", c, a.ref), absIdx(a.off, a.idx), nv)))
	default:
		vc.set(h, a.comp, app("store", c, a.ref, nv))
	}
}

// loadStruct assembles a struct value from the field components of object p
func (vc *VC) loadStruct(h *Heap, p string, t types.Type) Term {
	st := t.Underlying().(*types.Struct)
	s := vc.u.sortOf(t)
	var args []string
	for i := 0; i < st.NumFields(); i++ {
		comp, _, _ := vc.fieldCompOf(t, i)
		args = append(args, app("select", vc.get(h, comp), p))
	}
	if len(args) == 0 {
		return mk("mk-"+s, s).withType(t)
	}
	return mk(app("mk-"+s, args...), s).withType(t)
}

func (vc *VC) storeStruct(h *Heap, p string, t types.Type, v string) {
	st := t.Underlying().(*types.Struct)
	s := vc.u.sortOf(t)
	for i := 0; i < st.NumFields(); i++ {
		comp, _, _ := vc.fieldCompOf(t, i)
		vc.set(h, comp, app("store", vc.get(h, comp), p, app(fmt.Sprintf("%s.%s", s, st.Field(i).Name()), v)))
	}
}

// allocate a fresh reference
func (vc *VC) newRef(h *Heap, hint string) string {
	vc.compDecl("$alloc", SInt)
	cur := vc.get(h, "$alloc")
	r := vc.fresh(hint, SInt)
	vc.emit(fmt.Sprintf("(assert (> %s %s))", r, cur))
	h.m["$alloc"] = r
	return r
}

// the assumption that a reference-like value was allocated before now
func (vc *VC) allocated(h *Heap, t Term) string {
	vc.compDecl("$alloc", SInt)
	a := vc.get(h, "$alloc")
	switch t.Sort {
	case SIface:
		return and(app("<=", app("i.val", t.S), a), app(">=", app("i.tag", t.S), "0"), app(">=", app("i.val", t.S), "0"), implies(eq(app("i.tag", t.S), "0"), eq(app("i.val", t.S), "0")))
	case SSlice:
		return and(app("<=", app("s.arr", t.S), a), app(">=", app("s.arr", t.S), "0"), app(">=", app("s.off", t.S), "0"), app(">=", app("s.len", t.S), "0"), app(">=", app("s.cap", t.S), app("s.len", t.S)), app("<=", app("s.cap", t.S), "9223372036854775807"),
			implies(eq(app("s.arr", t.S), "0"), eq(app("s.cap", t.S), "0")))
	case SInt:
		if t.T != nil && isRefType(t.T) {
			return and(app("<=", t.S, a), app(">=", t.S, "0"))
		}
		if t.T != nil {
			if lo, hi, ok := intRange(t.T); ok {
				return and(app("<=", lo, t.S), app("<=", t.S, hi))
			}
		}
	}
	return "true"
}

func isRefType(t types.Type) bool {
	switch t.Underlying().(type) {
	case *types.Pointer, *types.Map, *types.Chan, *types.Signature:
		return true
	}
	return false
}

// ---- obligations ----------------------------------------------------------

func (vc *VC) oblige(kind, label string, tags []string, reach, goal, src string) *Obligation {
	name := vc.key + "#" + label
	pos := token.Position{}
	if vc.curPos.IsValid() {
		pos = vc.prog.prog.Fset.Position(vc.curPos)
	}
	o := &Obligation{Name: name, Kind: kind, Tags: tags, Prefix: len(vc.lines), Goal: cse(implies(reach, goal)), Src: src, Pos: pos, Fn: vc.key, Block: vc.curBlock}
	if vc.tagBlock != nil {
		o.Block = vc.tagBlock
	}
	// case-split hints: the most recent append decisions on the way to this point
	if o.Block != nil {
		anc := vc.ancestors(o.Block)
		for i := len(vc.splitTerms) - 1; i >= 0 && len(o.Splits) < 2; i-- {
			if anc[vc.splitTerms[i].block] {
				o.Splits = append(o.Splits, vc.splitTerms[i].term)
			}
		}
	}
	vc.obls = append(vc.obls, o)
	return o
}

// cover records a program point whose path condition must stay satisfiable together with everything
// assumed so far (vacuity guard): a point that is provably unreachable makes every obligation behind it
// hold for no reason.  Covers are not obligations; they are decided separately (coverCheck).
func (vc *VC) cover(label, reach string) {
	if reach == "true" {
		return
	}
	o := &Obligation{Name: vc.key + "#cover." + label, Kind: "cover", Prefix: len(vc.lines), Goal: cse(implies(reach, "false")), Fn: vc.key, Block: vc.curBlock, Cover: true}
	vc.covers = append(vc.covers, o)
}

func (vc *VC) counter(kind string) int {
	vc.counters[kind]++
	return vc.counters[kind]
}

// safety obligation (may be excused by the function's "panics when" clause)
func (vc *VC) safety(kind string, reach, goal, src string) {
	if goal == "true" {
		return
	}
	k := vc.counter(kind)
	if goal != "true" && vc.curHeap != nil {
		vc.onPanicExit(vc.curHeap, and(reach, not(goal)), fmt.Sprintf("%s.%d", kind, k))
	}
	if vc.panicOK == "true" {
		return // panics maybe: not an obligation of this function
	}
	g := goal
	if vc.panicOK != "" && vc.panicOK != "false" {
		g = or(vc.panicOK, goal)
	}
	vc.oblige("nopanic", fmt.Sprintf("nopanic.%s.%d", kind, k), vc.safetyTags(), reach, g, src)
}

func (vc *VC) safetyTags() []string {
	if vc.contract != nil && len(vc.contract.Tags) > 0 {
		return vc.contract.Tags
	}
	return nil
}

func (vc *VC) nonNilCheck(p string, reach string, src string) {
	if p == "0" {
		vc.safety("nil", reach, "false", src)
		return
	}
	for _, b := range vc.nonNil[p] {
		if b.Dominates(vc.curBlock) {
			return
		}
	}
	vc.nonNil[p] = append(vc.nonNil[p], vc.curBlock)
	vc.safety("nil", reach, not(eq(p, "0")), src)
}

func (vc *VC) unsupportedf(format string, args ...interface{}) {
	vc.unsupported = append(vc.unsupported, fmt.Sprintf(format, args...))
}

// query text for one obligation
func (vc *VC) queryLight(o *Obligation) string {
	vc.mu.Lock()
	defer vc.mu.Unlock()
	vc.lightMode = true
	defer func() { vc.lightMode = false }()
	return vc.queryLocked(o, false)
}

func (vc *VC) query(o *Obligation, produceModel bool) string {
	vc.mu.Lock()
	defer vc.mu.Unlock()
	return vc.queryLocked(o, produceModel)
}

func (vc *VC) queryLocked(o *Obligation, produceModel bool) string {
	var b strings.Builder
	var anc map[int]bool
	if o.Block != nil {
		anc = vc.ancestors(o.Block)
	}
	var sel []string
	for i, l := range vc.lines[:o.Prefix] {
		// slice: only lines emitted while executing blocks from which the obligation's block is reachable
		if anc != nil && vc.lineBlock[i] >= 0 && !anc[vc.lineBlock[i]] {
			continue
		}
		if vc.lightMode && len(o.Tags) > 0 && len(vc.lineTags[i]) > 0 && !tagsMeet(o.Tags, vc.lineTags[i]) {
			continue // light query: facts assumed from clauses of other properties only are left out
		}
		sel = append(sel, l)
	}
	keep := coneOfInfluenceLevel(sel, []string{o.Goal}, vc.lightMode)
	for i, l := range sel {
		if keep[i] || o.Cover || noSlice {
			b.WriteString(l)
			b.WriteString("\n")
		}
	}
	fmt.Fprintf(&b, "(assert (not %s))\n(check-sat)\n", o.Goal)
	if produceModel {
		b.WriteString("(get-model)\n")
	}
	body := b.String()
	pre := vc.u.preambleFor(body)
	if produceModel {
		pre = "(set-option :produce-models true)\n" + pre
	}
	return pre + body
}

// fingerprint of everything a query of this VC can contain (preamble and all lines, with their
// block tags); computed once.  The verdict cache is keyed by it plus the obligation's own data.
func (vc *VC) fingerprint() string {
	vc.mu.Lock()
	defer vc.mu.Unlock()
	if vc.fp != "" {
		return vc.fp
	}
	h := sha256.New()
	h.Write([]byte(vc.u.preamble()))
	for i, l := range vc.lines {
		fmt.Fprintf(h, "%d|%s\n", vc.lineBlock[i], l)
	}
	vc.fp = hex.EncodeToString(h.Sum(nil))
	return vc.fp
}

func (vc *VC) oblKey(o *Obligation) string {
	bi := -1
	if o.Block != nil {
		bi = o.Block.Index
	}
	return fmt.Sprintf("%s|%d|%d|%s", vc.fingerprint(), o.Prefix, bi, o.Goal)
}

func isHubSymbol(sym string) bool {
	return strings.HasPrefix(sym, "$alloc") || strings.HasPrefix(sym, "x24alloc!") || strings.HasPrefix(sym, "edge_") || strings.HasPrefix(sym, "reach_b")
}

var smtKeywords = map[string]bool{"assert": true, "forall": true, "exists": true, "let": true, "=>": true, "and": true, "or": true, "not": true, "=": true,
	"ite": true, "select": true, "store": true, "Int": true, "Bool": true, "Str": true, "Array": true, "define-fun": true, "declare-const": true,
	"declare-fun": true, "true": true, "false": true, "!": true, ":pattern": true, "<=": true, "<": true, ">=": true, ">": true, "+": true, "-": true,
	"*": true, "div": true, "mod": true, "distinct": true, "Slice": true, "Iface": true, "as": true, "const": true, "_": true}

// coneOfInfluence keeps the lines connected to the goal through shared symbols.  Allocation
// watermarks and path conditions occur almost everywhere and do not propagate relevance; dropping
// an assumption is always sound.
var aggressiveSlice = false
var orderFactRe = regexp.MustCompile(`^\(assert \(>=? ([^\s()]+) ([^\s()]+)\)\)$`)
var noSlice = os.Getenv("GOVC_NOSLICE") != ""

func isHub2(sym string) bool {
	return isHubSymbol(sym) || strings.HasPrefix(sym, "p_") || strings.HasPrefix(sym, "fv_")
}

func coneOfInfluence(lines []string, goals []string) []bool {
	return coneOfInfluenceLevel(lines, goals, false)
}

func coneOfInfluenceLevel(lines []string, goals []string, aggressive bool) []bool {
	hub := isHubSymbol
	if aggressive {
		hub = isHub2
	}
	n := len(lines)
	syms := make([]map[string]bool, n)
	defs := make([]string, n)
	for i, l := range lines {
		m := map[string]bool{}
		symbolsOf(l, m)
		for k := range m {
			if smtKeywords[k] || (k[0] >= '0' && k[0] <= '9') || strings.HasPrefix(k, "(") || strings.HasSuffix(k, "!q0") || strings.HasSuffix(k, "!q1") || strings.HasSuffix(k, "!q2") {
				delete(m, k)
			}
		}
		syms[i] = m
		if strings.HasPrefix(l, "(define-fun ") || strings.HasPrefix(l, "(declare-const ") || strings.HasPrefix(l, "(declare-fun ") {
			f := strings.Fields(l)
			if len(f) > 1 {
				defs[i] = f[1]
			}
		}
	}
	rel := map[string]bool{}
	for _, g := range goals {
		symbolsOf(g, rel)
	}
	keep := make([]bool, n)
	for changed := true; changed; {
		changed = false
		for i := n - 1; i >= 0; i-- {
			if keep[i] {
				continue
			}
			take := false
			if defs[i] != "" {
				take = rel[defs[i]]
			} else if m := orderFactRe.FindStringSubmatch(lines[i]); m != nil {
				// an ordering fact between two watermarks / references (x >= y): relevant as soon as the
				// upper one is (chains of these carry "allocated later than")
				take = rel[m[1]]
			} else {
				nonHub := 0
				for k := range syms[i] {
					if hub(k) {
						continue
					}
					nonHub++
					if rel[k] {
						take = true
					}
				}
				if nonHub == 0 {
					for k := range syms[i] {
						if rel[k] {
							take = true
						}
					}
				}
			}
			if take {
				keep[i] = true
				changed = true
				for k := range syms[i] {
					rel[k] = true
				}
			}
		}
	}
	return keep
}

// queryBatch: one script deciding several obligations that share a program point (same context)
func (vc *VC) queryBatch(os []*Obligation) string {
	vc.mu.Lock()
	defer vc.mu.Unlock()
	o := os[0]
	var b strings.Builder
	var anc map[int]bool
	if o.Block != nil {
		anc = vc.ancestors(o.Block)
	}
	var sel []string
	for i, l := range vc.lines[:o.Prefix] {
		if anc != nil && vc.lineBlock[i] >= 0 && !anc[vc.lineBlock[i]] {
			continue
		}
		sel = append(sel, l)
	}
	var goals []string
	for _, g := range os {
		goals = append(goals, g.Goal)
	}
	keep := coneOfInfluence(sel, goals)
	for i, l := range sel {
		if keep[i] {
			b.WriteString(l)
			b.WriteString("\n")
		}
	}
	for _, g := range os {
		fmt.Fprintf(&b, "(push 1)\n(assert (not %s))\n(check-sat)\n(pop 1)\n", g.Goal)
	}
	body := b.String()
	return vc.u.preambleFor(body) + body
}

func sortedKeys(m map[string]bool) []string {
	var ks []string
	for k := range m {
		ks = append(ks, k)
	}
	sort.Strings(ks)
	return ks
}

// importSort makes sure the datatypes mentioned in a sort string are declared in this VC's universe
func (vc *VC) importSort(s Sort) {
	from := vc.prog.scratch().u
	for _, tok := range strings.FieldsFunc(s, func(r rune) bool { return r == '(' || r == ')' || r == ' ' }) {
		if strings.HasPrefix(tok, "S_") {
			if _, ok := vc.u.structs[tok]; ok {
				continue
			}
			if st, ok := from.structs[tok]; ok {
				vc.u.structs[tok] = st
				for i := 0; i < st.NumFields(); i++ {
					vc.u.sortOf(st.Field(i).Type())
				}
				vc.u.structOrd = append(vc.u.structOrd, tok)
			}
		}
		if strings.HasPrefix(tok, "X_") && !vc.u.opaque[tok] {
			vc.u.opaque[tok] = true
			vc.u.opaqueOrd = append(vc.u.opaqueOrd, tok)
		}
	}
}

func absIdx(off, i string) string {
	if off == "0" {
		return i
	}
	return app("+", off, i)
}

// typeKey names a component after the Go type of its values: reference-like and integer types are
// kept apart (they share the sort Int), everything else is named by sort.
func typeKey(t types.Type, s Sort) string {
	if s == SIface {
		if n, ok := types.Unalias(t).(*types.Named); ok {
			return sanitize(shortTypeName(n))
		}
		if it, ok := t.Underlying().(*types.Interface); ok && it.NumMethods() == 0 {
			return "any"
		}
		return "Iface"
	}
	if s != SInt {
		return sortKey(s)
	}
	switch tt := t.Underlying().(type) {
	case *types.Basic:
		return sanitize(tt.Name())
	case *types.Pointer:
		return "P" + sanitize(shortTypeName(tt.Elem()))
	case *types.Map:
		return "map_" + sanitize(shortTypeName(tt.Key())) + "_" + sanitize(shortTypeName(tt.Elem()))
	case *types.Signature:
		return "func"
	case *types.Chan:
		return "chan"
	case *types.Array:
		return "arr"
	}
	return "Int"
}

func shortTypeName(t types.Type) string {
	return types.TypeString(t, func(p *types.Package) string { return shortPkg(p.Path()) })
}

type recDef struct {
	sym   string
	comps []string
	ret   Sort
	retT  types.Type
	busy  bool
}

// ---- the "no nil object" discipline (assumption A-OBJ in DESIGN.md) -------------------
// Every object.Object that the code stores into the heap is a non-nil pointer to one of the
// module's object types (checked: obligation objinv.store at every store in a verified function);
// in exchange every object.Object the code loads from an in-bounds slot / present map key / field is
// assumed to be one.

func isObjectType(t types.Type) bool {
	n, ok := types.Unalias(t).(*types.Named)
	return ok && n.Obj().Name() == "Object" && n.Obj().Pkg() != nil && n.Obj().Pkg().Name() == "object" && isModulePkg(n.Obj().Pkg())
}

func (vc *VC) goodObj(v string, t types.Type) string {
	it := t.Underlying().(*types.Interface)
	var alts []string
	for _, tg := range vc.implTags(it) {
		alts = append(alts, eq(app("i.tag", v), fmt.Sprint(tg)))
	}
	return and(or(alts...), not(eq(app("i.val", v), "0")))
}

// objInv: the discipline's formula for a value of type t (true when t holds no object.Object)
func (vc *VC) objInv(v string, t types.Type, depth int) string {
	if t == nil || depth > 2 {
		return "true"
	}
	if isObjectType(t) {
		return vc.goodObj(v, t)
	}
	if st, ok := t.Underlying().(*types.Struct); ok && isModuleStruct(t) {
		s := vc.u.sortOf(t)
		var parts []string
		for i := 0; i < st.NumFields(); i++ {
			parts = append(parts, vc.objInv(app(s+"."+st.Field(i).Name(), v), st.Field(i).Type(), depth+1))
		}
		return and(parts...)
	}
	return "true"
}

// sliceObjInv: every element of a []object.Object value is a good object (in heap h)
func (vc *VC) sliceObjInv(h *Heap, v string, t types.Type) string {
	sl, ok := t.Underlying().(*types.Slice)
	if !ok || !isObjectType(sl.Elem()) {
		return "true"
	}
	comp, es := vc.elemComp(sl.Elem())
	e := app(vc.u.elt(es), app("select", vc.get(h, comp), app("s.arr", v)), app("s.off", v), "j!o")
	return fmt.Sprintf("(forall ((j!o Int)) %s)", implies(and(app("<=", "0", "j!o"), app("<", "j!o", app("s.len", v))), vc.goodObj(e, sl.Elem())))
}

func (vc *VC) storeInv(reach string, v Term, t types.Type, what string) {
	f := vc.objInv(v.S, t, 0)
	if vc.storeHeap != nil {
		f = and(f, vc.sliceObjInv(vc.storeHeap, v.S, t))
	}
	if f == "true" {
		return
	}
	k := vc.counter("objinv.store")
	vc.oblige("objinv", fmt.Sprintf("objinv.store.%d", k), vc.safetyTags(), reach, f, "object.Object stored into "+what+" is a non-nil module object")
	vc.assumptions["A-OBJ: object.Object values loaded from in-bounds slots, present map keys and struct fields are non-nil module objects (every store in a verified function is checked: objinv.store)"] = true
}

// ghost log of calls through function values: Gcalls_n counts them, Gcalls_fn[k] is the function
// value and Gcalls_args[k] the (first) slice argument of the k-th call.
func (vc *VC) callLogDecl() {
	vc.compDecl("Gcalls_n", SInt)
	vc.compDecl("Gcalls_fn", "(Array Int Int)")
	vc.compDecl("Gcalls_args", "(Array Int Slice)")
}

type splitTerm struct {
	term  string
	block int
}

func (vc *VC) noteSplit(term string) {
	bi := -1
	if vc.tagBlock != nil {
		bi = vc.tagBlock.Index
	} else if vc.curBlock != nil {
		bi = vc.curBlock.Index
	}
	vc.splitTerms = append(vc.splitTerms, splitTerm{term, bi})
}

func tagsMeet(a, b []string) bool {
	for _, x := range a {
		for _, y := range b {
			if x == y {
				return true
			}
		}
	}
	return false
}

type recoverEdge struct {
	reach string
	h     *Heap
}
