package main

// govc check <property>: the MANIFEST interface.

import (
	"encoding/json"
	"flag"
	"fmt"
	"os"
	"path/filepath"
	"regexp"
	"sort"
	"strconv"
	"strings"
	"sync"
	"time"

	"golang.org/x/tools/go/ssa"
)

type finding struct {
	Kind       string // finding | fixed
	Property   string
	Obligation string // exact name or regexp (anchored)
	Region     string // spec expression over the function's entry state; "" = whole obligation
	Witness    string
	What       string
	Commit     string
	re         *regexp.Regexp
}

func loadFindings(path string) ([]*finding, error) {
	data, err := os.ReadFile(path)
	if err != nil {
		if os.IsNotExist(err) {
			return nil, nil
		}
		return nil, err
	}
	var out []*finding
	for i, line := range strings.Split(string(data), "\n") {
		line = strings.TrimSpace(line)
		if line == "" || strings.HasPrefix(line, "#") {
			continue
		}
		f := &finding{}
		switch {
		case strings.HasPrefix(line, "finding:"):
			f.Kind = "finding"
			line = strings.TrimSpace(strings.TrimPrefix(line, "finding:"))
		case strings.HasPrefix(line, "fixed:"):
			f.Kind = "fixed"
			line = strings.TrimSpace(strings.TrimPrefix(line, "fixed:"))
		default:
			return nil, fmt.Errorf("%s:%d: unknown entry", path, i+1)
		}
		// key=value fields; values run until the next " key=" of a known key
		keys := []string{"property", "obligation", "region", "witness", "what", "commit"}
		idx := map[string]int{}
		for _, k := range keys {
			if j := strings.Index(" "+line, " "+k+"="); j >= 0 {
				idx[k] = j
			}
		}
		type kv struct {
			k string
			i int
		}
		var ord []kv
		for k, j := range idx {
			ord = append(ord, kv{k, j})
		}
		sort.Slice(ord, func(a, b int) bool { return ord[a].i < ord[b].i })
		for n, e := range ord {
			end := len(line)
			if n+1 < len(ord) {
				end = ord[n+1].i
			}
			val := strings.TrimSpace(line[e.i+len(e.k)+1 : end])
			switch e.k {
			case "property":
				f.Property = val
			case "obligation":
				f.Obligation = val
			case "region":
				f.Region = val
			case "witness":
				f.Witness = val
			case "what":
				f.What = val
			case "commit":
				f.Commit = val
			}
		}
		if f.Kind == "finding" {
			if f.Property == "" || f.Obligation == "" || f.What == "" {
				return nil, fmt.Errorf("%s:%d: finding needs property, obligation, what", path, i+1)
			}
			re, err := regexp.Compile("^(" + f.Obligation + ")$")
			if err != nil {
				return nil, fmt.Errorf("%s:%d: %v", path, i+1, err)
			}
			f.re = re
		}
		out = append(out, f)
	}
	return out, nil
}

// propertyTags: does obligation o belong to property id?
func hasTag(tags []string, id string) bool {
	for _, t := range tags {
		if t == id {
			return true
		}
	}
	return false
}

func contractMentions(c *Contract, id string) bool {
	if hasTag(c.Tags, id) {
		return true
	}
	for _, cl := range append(append(append([]*Clause{}, c.Requires...), c.Ensures...), c.OnPanic...) {
		if hasTag(cl.Tags, id) {
			return true
		}
	}
	if c.PanicsWhen != nil && hasTag(c.PanicsWhen.Tags, id) {
		return true
	}
	for _, ls := range c.Loops {
		for _, cl := range append(append(append([]*Clause{}, ls.Invariants...), ls.Steps...), ls.Exits...) {
			if hasTag(cl.Tags, id) {
				return true
			}
		}
		if ls.Decreases != nil && hasTag(ls.Decreases.Tags, id) {
			return true
		}
	}
	return false
}

type evidence struct {
	PropertyID  string                 `json:"property_id"`
	Tier        string                 `json:"tier"`
	Seed        int                    `json:"seed"`
	Level       string                 `json:"level"`
	Coverage    map[string]interface{} `json:"coverage"`
	Assumptions []string               `json:"assumptions"`
	WallS       float64                `json:"wall_s"`
	Violations  int                    `json:"violations"`
}

func cmdCheck(args []string) {
	if len(args) < 1 {
		usage()
	}
	id := args[0]
	fs := flag.NewFlagSet("check", flag.ExitOnError)
	tier := fs.String("tier", "quick", "quick|thorough")
	fs.Parse(args[1:])
	if t := os.Getenv("VERIF_TIER"); t != "" {
		*tier = t
	}
	seed := 0
	if s := os.Getenv("VERIF_SEED"); s != "" {
		seed, _ = strconv.Atoi(s)
	}
	t0 := time.Now()
	p := mustLoad()
	findings, err := loadFindings(home() + "/KNOWN_FINDINGS.txt")
	if err != nil {
		fmt.Fprintln(os.Stderr, "govc: engine error:", err)
		os.Exit(2)
	}
	res := runProperty(p, id, *tier, seed, findings)
	res.ev.WallS = time.Since(t0).Seconds()
	os.MkdirAll(outDir("evidence"), 0o755)
	data, _ := json.MarshalIndent(res.ev, "", " ")
	if err := os.WriteFile(filepath.Join(outDir("evidence"), id+".json"), data, 0o644); err != nil {
		fmt.Fprintln(os.Stderr, "govc: cannot write evidence:", err)
		os.Exit(2)
	}
	if res.engineErr != "" {
		fmt.Fprintln(os.Stderr, "govc: engine error:", res.engineErr)
		os.Exit(2)
	}
	if res.ev.Violations > 0 {
		os.Exit(1)
	}
}

var staleNotes, supportNotes []string

type propResult struct {
	ev        *evidence
	engineErr string
}

func runProperty(p *Program, id, tier string, seed int, findings []*finding) *propResult {
	res := &propResult{ev: &evidence{PropertyID: id, Tier: tier, Seed: seed, Level: "proof", Coverage: map[string]interface{}{}}}
	if id == "C11" {
		res.ev.Level = "other"
		res.ev.Coverage["explanation"] = "lock discipline checked function by function (guarded_by / immutable-after-init obligations, critical-section dominance); schedules are not explored, so this is not a proof of the property's quantifier over interleavings"
	}
	opts := solveOpts{timeout: 30 * time.Second}
	if tier == "thorough" {
		opts.timeout = 60 * time.Second
		opts.all = true
		opts.noCache = true
	}
	// 1. functions whose contract mentions the property, closed under "uses the contract of"
	roots := map[string]bool{}
	for k, c := range p.contracts.byKey {
		if contractMentions(c, id) {
			roots[k] = true
		}
	}
	// every function assumes the global invariants: the initialisers that establish them are always
	// part of the check (tagged ones decide the property directly, the others support it)
	for _, gi := range p.contracts.ginvs {
		if k := shortPkg(gi.Pkg) + ".init"; p.funcs[k] != nil {
			roots[k] = true
		}
	}
	var stale []string
	for k := range p.contracts.byKey {
		if p.funcs[k] == nil {
			stale = append(stale, k)
		}
	}
	sort.Strings(stale)
	vcs := map[string]*VC{}
	trustedFns := map[string]string{}
	skipped := map[string]bool{}
	var order []string
	work := sortedKeys(roots)
	var engineErrs []string
	genFail := map[string]string{}
	for len(work) > 0 {
		k := work[0]
		work = work[1:]
		if _, done := vcs[k]; done {
			continue
		}
		f := p.funcs[k]
		if f == nil {
			continue
		}
		if c := p.contracts.byKey[k]; c != nil && c.Trusted != "" {
			// a trusted contract is an assumption: nothing is generated for its function
			trustedFns[k] = c.Trusted
			vcs[k] = nil
			skipped[k] = true
			continue
		}
		vc := newVC(p, f)
		if err := vc.run(); err != nil {
			// the contract no longer fits the function, or the function left the supported subset: every
			// obligation of this function was generated on the unchanged tree and cannot be any more
			genFail[k] = err.Error()
			vcs[k] = nil
			skipped[k] = true
			continue
		}
		vcs[k] = vc
		order = append(order, k)
		// callees whose contracts were used
		for _, ck := range vc.usedContracts() {
			if _, done := vcs[ck]; !done {
				work = append(work, ck)
			}
		}
	}
	sort.Strings(order)
	tGen := time.Now()
	// 2. obligations
	var jobs []job
	for _, k := range order {
		vc := vcs[k]
		for _, o := range vc.obls {
			jobs = append(jobs, job{vc, o})
		}
	}
	if f := os.Getenv("GOVC_DUMPNAMES"); f != "" {
		var b strings.Builder
		for _, j := range jobs {
			b.WriteString(j.o.Name + "\n")
		}
		os.WriteFile(f, []byte(b.String()), 0o644)
	}
	// obligations named by a listed finding: decide them under the negated region first (the usual
	// outcome, and one the verdict cache remembers); the unrestricted attempt, which is expected to
	// time out, then only gets a short budget (it tells whether the finding has become stale)
	var plain []job
	preKnown := map[*Obligation]*finding{}
	var kmu sync.Mutex
	var kwg sync.WaitGroup
	for _, j := range jobs {
		var hit *finding
		for _, f := range findings {
			if f.Kind == "finding" && f.re.MatchString(j.o.Name) {
				hit = f
				break
			}
		}
		if hit == nil {
			plain = append(plain, j)
			continue
		}
		tries := regionCandidates(findings, j.o, j.vc)
		j.vc.fingerprint()
		kwg.Add(1)
		go func(j job) {
			defer kwg.Done()
			if kf := decideRegions(tries, j.vc, opts); kf != nil {
				short := opts
				short.timeout = 3 * time.Second
				discharge(j.vc, j.o, short)
				kmu.Lock()
				defer kmu.Unlock()
				if j.o.Status == "proved" {
					staleNotes = append(staleNotes, fmt.Sprintf("NOTE: listed finding no longer reproduces (obligation %s now discharges): %s", j.o.Name, kf.What))
				} else {
					j.o.Status = "unknown"
					preKnown[j.o] = kf
				}
				return
			}
			// the region does not cover the failure: decide it like any other obligation
			discharge(j.vc, j.o, opts)
		}(j)
	}
	kwg.Wait()
	tKnown := time.Now()
	dischargeAll(plain, opts)
	if os.Getenv("GOVC_STATS") != "" {
		fmt.Fprintf(os.Stderr, "phases: known-findings %.1fs, discharge %.1fs\n", tKnown.Sub(tGen).Seconds(), time.Since(tKnown).Seconds())
	}

	// 3. classify
	type row struct {
		o      *Obligation
		vc     *VC
		direct bool
	}
	var rows []row
	nDirect, nSupport, discharged, pinned := 0, 0, 0, 0
	byBackend := map[string]int{}
	solverTime := 0.0
	var slowest []*Obligation
	violations := 0
	var knownLines, violLines []string
	var samples []interface{}
	for _, j := range jobs {
		o := j.o
		direct := hasTag(o.Tags, id) || hasTag(j.vc.safetyTags(), id)
		rows = append(rows, row{o, j.vc, direct})
		if direct {
			nDirect++
		} else {
			nSupport++
		}
		if o.Pinned {
			pinned++
		}
		solverTime += o.Time
		slowest = append(slowest, o)
		switch o.Status {
		case "proved":
			discharged++
			byBackend[o.Solver]++
		case "error":
			engineErrs = append(engineErrs, o.Name+": "+o.Detail)
		default:
			// failed or unknown: known finding?
			kf := preKnown[o]
			if kf == nil {
				kf = matchFinding(findings, o, j.vc, opts)
			}
			if kf != nil {
				o.Known = kf.What
				if strings.Contains(","+kf.Property+",", ","+id+",") {
					knownLines = append(knownLines, fmt.Sprintf("KNOWN-FINDING: property=%s %s [%s]", id, kf.What, o.Name))
				} else {
					supportNotes = append(supportNotes, fmt.Sprintf("NOTE: a contract this proof relies on has a listed finding of property %s: %s [%s]", kf.Property, kf.What, o.Name))
				}
				discharged++ // holds outside the listed region
				byBackend["known-finding-region"]++
			} else {
				violations++
				rp := writeReplay(id, o, j.vc)
				suffix := ""
				if !strings.Contains(rp.status, "reproduced") {
					suffix = " no-failing-input-found"
				}
				violLines = append(violLines, fmt.Sprintf("VIOLATION property=%s replay=%s obligation=%s status=%s%s", id, rp.path, o.Name, o.Status, suffix))
			}
		}
	}
	gfKeys := map[string]bool{}
	for k := range genFail {
		gfKeys[k] = true
	}
	for _, k := range sortedKeys(gfKeys) {
		violations++
		dir := filepath.Join(outDir("replays"), id)
		os.MkdirAll(dir, 0o755)
		path := filepath.Join(dir, sanitize(k)+".vcgen.json")
		data, _ := json.MarshalIndent(map[string]string{"property": id, "obligation": k + "#vcgen", "reason": "the obligations of this function could be generated on the unchanged tree and cannot be generated now: " + genFail[k], "replay_status": "no-failing-input-found"}, "", " ")
		os.WriteFile(path, data, 0o644)
		violLines = append(violLines, fmt.Sprintf("VIOLATION property=%s replay=%s obligation=%s#vcgen status=undecidable (%s) no-failing-input-found", id, path, k, trunc(genFail[k], 160)))
	}
	res.ev.Coverage["functions_whose_obligations_cannot_be_generated"] = genFail
	for _, s := range stale {
		violations++
		rp := writeStaleReplay(id, s)
		violLines = append(violLines, fmt.Sprintf("VIOLATION property=%s replay=%s obligation=%s status=contract-stale no-failing-input-found", id, rp, s))
	}
	sort.Slice(slowest, func(a, b int) bool { return slowest[a].Time > slowest[b].Time })
	var slow []string
	for i := 0; i < len(slowest) && i < 5; i++ {
		slow = append(slow, fmt.Sprintf("%s %.2fs", slowest[i].Name, slowest[i].Time))
	}
	// samples: a few direct obligations with their goal text
	for _, r := range rows {
		if r.direct && len(samples) < 6 {
			samples = append(samples, map[string]string{"obligation": r.o.Name, "clause": r.o.Src, "status": r.o.Status, "backend": r.o.Solver})
		}
	}
	if len(samples) == 0 {
		for _, r := range rows {
			if len(samples) < 3 {
				samples = append(samples, map[string]string{"obligation": r.o.Name, "clause": r.o.Src, "status": r.o.Status})
			}
		}
	}
	// trusted base / assumptions
	trusted := map[string]bool{}
	assume := map[string]bool{}
	noContract := map[string]bool{}
	var unsupported []string
	for _, k := range order {
		vc := vcs[k]
		for t := range vc.trusted {
			trusted[t] = true
		}
		for a := range vc.assumptions {
			assume[a] = true
		}
		for c := range vc.calleesNoContract {
			noContract[c] = true
		}
		supportNotes = append(supportNotes, vc.notes...)
	}
	for k, vc := range vcs {
		if vc == nil && !skipped[k] {
			unsupported = append(unsupported, k)
		}
	}
	for k, why := range trustedFns {
		trusted[k+" (trusted contract, assumed): "+why] = true
	}
	sort.Strings(unsupported)
	cov := res.ev.Coverage
	cov["obligations"] = len(jobs) + len(stale)
	cov["discharged"] = discharged
	cov["obligations_tagged_with_property"] = nDirect
	cov["obligations_of_supporting_contracts"] = nSupport
	cov["pinned_regression_clauses"] = pinned
	cov["functions_under_contract"] = order
	cov["checker_cmd"] = fmt.Sprintf("/verif/bin/govc check %s --tier %s", id, tier)
	cov["by_backend"] = byBackend
	cov["solver_time_s"] = solverTime
	cov["slowest"] = slow
	cov["samples"] = samples
	cov["known_findings"] = knownLines
	cov["functions_without_contract_called"] = sortedKeys(noContract)
	cov["functions_outside_subset"] = unsupported
	tb := sortedKeys(trusted)
	tb = append(tb, "go/ssa (x/tools v0.29.0) reading of the source", "SMT solvers z3 5.1.0 / z3 4.8.12 / cvc5 1.0 (first unsat wins; sat vs unsat disagreement is an engine error)",
		"govc's translation of SSA to SMT (DESIGN.md 2.3, 2.10)")
	cov["trusted_base"] = tb
	nKnownBefore := len(knownLines)
	addStructuralCoverage(p, id, tier, res, &violLines, &knownLines, findings)
	if v, ok := cov["structural_violations"].(int); ok {
		violations += v
	}
	_ = nKnownBefore
	if isBounded(id) {
		res.ev.Level = "exploration"
		bv, bk, bn := runBounded(id, tier, seed, findings, res)
		violLines = append(violLines, bv...)
		knownLines = append(knownLines, bk...)
		supportNotes = append(supportNotes, bn...)
		violations += len(bv)
		cov["explanation"] = "the property quantifies over all programs: it is decided by the bounded harness (labelled bounded, never counted as proved); the discharged obligations listed here are the per-function contracts the property rests on (code emission and back-patching, the machine's jump, iteration and case steps, iteration contracts of the objects)"
	}
	for _, hid := range supportHarness[id] {
		bv, _, bn := runHarness(id, hid, tier, seed, findings, res)
		violLines = append(violLines, bv...)
		supportNotes = append(supportNotes, bn...)
		violations += len(bv)
	}
	cov["known_findings"] = knownLines
	as := sortedKeys(assume)
	as = append(as, propertyAssumptions(id)...)
	res.ev.Assumptions = as
	res.ev.Violations = violations
	if len(engineErrs) > 0 {
		cov["engine_errors"] = engineErrs
	}

	if os.Getenv("GOVC_STATS") != "" {
		fmt.Fprintf(os.Stderr, "cache: batch hit %d miss %d, single hit %d miss %d\n", statBatchHit, statBatchMiss, statSingleHit, statSingleMiss)
	}
	// 4. report
	fmt.Printf("govc check %s (%s): %d functions, %d obligations (%d tagged %s, %d supporting), %d discharged, %d known findings, %d violations, solver %.1fs\n",
		id, tier, len(order), len(jobs), nDirect, id, nSupport, discharged, len(knownLines), violations, solverTime)
	for _, l := range knownLines {
		fmt.Println(l)
	}
	for _, l := range staleNotes {
		fmt.Println(l)
	}
	for _, l := range supportNotes {
		fmt.Println(l)
	}
	cov["findings_in_supporting_contracts"] = supportNotes
	for _, l := range violLines {
		fmt.Println(l)
	}
	if len(jobs) == 0 && cov["structural_obligations"] == nil && !isBounded(id) {
		res.engineErr = "no obligation generated for " + id + " (vacuous check)"
	}
	if len(engineErrs) > 0 {
		res.engineErr = strings.Join(engineErrs, "; ")
		for _, e := range engineErrs {
			fmt.Println("ENGINE-ERROR:", e)
		}
	}
	return res
}

func (vc *VC) usedContracts() []string {
	seen := map[string]bool{}
	for _, b := range vc.fn.Blocks {
		for _, in := range b.Instrs {
			ci, ok := in.(ssa.CallInstruction)
			if !ok {
				continue
			}
			for _, callee := range vc.prog.callees(ci.Common()) {
				k := vc.prog.keyOf[callee]
				if vc.prog.contracts.byKey[k] != nil {
					seen[k] = true
				}
			}
		}
	}
	return sortedKeys(seen)
}

// matchFinding: is the failure of o covered by a listed finding?  Covered means: the obligation
// discharges once the finding's region is excluded.
type regionTry struct {
	f  *finding
	o2 *Obligation // nil: the finding covers the whole obligation
}

// regionCandidates evaluates the regions of the findings that name o (sequential: it touches the VC)
func regionCandidates(findings []*finding, o *Obligation, vc *VC) []regionTry {
	var out []regionTry
	for _, f := range findings {
		if f.Kind != "finding" || !f.re.MatchString(o.Name) {
			continue
		}
		if f.Region == "" || f.Region == "true" {
			out = append(out, regionTry{f, nil})
			continue
		}
		e, err := parseSpecExpr(f.Region)
		if err != nil {
			fmt.Fprintf(os.Stderr, "govc: KNOWN_FINDINGS region does not parse: %v\n", err)
			continue
		}
		env := vc.entryEnv()
		if o.EnvFn != nil {
			env = o.EnvFn()
		}
		s, err := env.evalBool(e)
		if err != nil {
			fmt.Fprintf(os.Stderr, "govc: KNOWN_FINDINGS region for %s: %v\n", o.Name, err)
			continue
		}
		o2 := *o
		o2.Goal = implies(not(s), o.Goal)
		o2.Status = ""
		out = append(out, regionTry{f, &o2})
	}
	return out
}

// decideRegions: the first finding whose negated region makes the obligation discharge (solver only)
func decideRegions(tries []regionTry, vc *VC, opts solveOpts) *finding {
	for _, t := range tries {
		if t.o2 == nil {
			return t.f
		}
		discharge(vc, t.o2, solveOpts{timeout: opts.timeout, noCache: opts.noCache})
		if t.o2.Status == "proved" {
			return t.f
		}
	}
	return nil
}

func matchFinding(findings []*finding, o *Obligation, vc *VC, opts solveOpts) *finding {
	return decideRegions(regionCandidates(findings, o, vc), vc, opts)
}

func matchFindingOld(findings []*finding, o *Obligation, vc *VC, opts solveOpts) *finding {
	base := o.Name
	for _, f := range findings {
		if f.Kind != "finding" || !f.re.MatchString(base) {
			continue
		}
		if f.Region == "" || f.Region == "true" {
			return f
		}
		e, err := parseSpecExpr(f.Region)
		if err != nil {
			fmt.Fprintf(os.Stderr, "govc: KNOWN_FINDINGS region does not parse: %v\n", err)
			continue
		}
		env := vc.entryEnv()
		if o.EnvFn != nil {
			env = o.EnvFn()
		}
		s, err := env.evalBool(e)
		if err != nil {
			fmt.Fprintf(os.Stderr, "govc: KNOWN_FINDINGS region for %s: %v\n", o.Name, err)
			continue
		}
		o2 := *o
		o2.Goal = implies(not(s), o.Goal)
		o2.Status = ""
		discharge(vc, &o2, solveOpts{timeout: opts.timeout, noCache: opts.noCache})
		if o2.Status == "proved" {
			return f
		}
	}
	return nil
}

type replayInfo struct {
	path   string
	status string
}

func writeReplay(id string, o *Obligation, vc *VC) replayInfo {
	dir := filepath.Join(outDir("replays"), id)
	os.MkdirAll(dir, 0o755)
	path := filepath.Join(dir, sanitize(o.Name)+".json")
	rep := map[string]interface{}{
		"property": id, "obligation": o.Name, "kind": o.Kind, "clause": o.Src, "function": o.Fn,
		"position": o.Pos.String(), "solver_status": o.Status, "solver_detail": o.Detail,
		"model_is_candidate_only": o.Candidate,
	}
	if o.Model != "" {
		rep["solver_output"] = trunc2(o.Model, 20000)
	}
	status := "no-failing-input-found"
	if r := replayOnRealCode(o, vc); r != nil {
		rep["replay"] = r
		if r["reproduced"] == true {
			status = "reproduced"
		}
	}
	rep["replay_status"] = status
	qpath := strings.TrimSuffix(path, ".json") + ".smt2"
	os.WriteFile(qpath, []byte(vc.query(o, true)), 0o644)
	rep["query_file"] = qpath
	data, _ := json.MarshalIndent(rep, "", " ")
	os.WriteFile(path, data, 0o644)
	return replayInfo{path, status}
}

func writeStaleReplay(id, key string) string {
	dir := filepath.Join(outDir("replays"), id)
	os.MkdirAll(dir, 0o755)
	path := filepath.Join(dir, sanitize(key)+".stale.json")
	data, _ := json.MarshalIndent(map[string]string{"property": id, "obligation": key, "reason": "contract-stale: no function with this key exists in the current tree (renamed or removed)", "replay_status": "no-failing-input-found"}, "", " ")
	os.WriteFile(path, data, 0o644)
	return path
}

func trunc2(s string, n int) string {
	if len(s) > n {
		return s[:n] + "\n...[truncated]"
	}
	return s
}

func cmdReplay(args []string) {
	if len(args) < 1 {
		usage()
	}
	data, err := os.ReadFile(args[0])
	if err != nil {
		fmt.Fprintln(os.Stderr, err)
		os.Exit(2)
	}
	var rep map[string]interface{}
	json.Unmarshal(data, &rep)
	fmt.Printf("obligation %v (%v)\nclause: %v\nsolver: %v %v\nreplay: %v\n", rep["obligation"], rep["position"], rep["clause"], rep["solver_status"], rep["solver_detail"], rep["replay_status"])
	if q, ok := rep["query_file"].(string); ok {
		r := runSolver("z3-new", mustRead(q), 20*time.Second)
		fmt.Printf("re-running the recorded query with z3-new: %s\n", r.verdict)
	}
}

func mustRead(p string) string {
	b, _ := os.ReadFile(p)
	return string(b)
}

func writeJSON(dir, name string, v interface{}) string {
	os.MkdirAll(dir, 0o755)
	path := filepath.Join(dir, name)
	data, _ := json.MarshalIndent(v, "", " ")
	os.WriteFile(path, data, 0o644)
	return path
}

// outDir: where evidence and replay files go (default /verif; GOVC_OUT redirects it when the checks
// are tried against a scratch copy with a seeded change)
func outDir(sub string) string {
	base := "/verif"
	if d := os.Getenv("GOVC_OUT"); d != "" {
		base = d
	}
	return filepath.Join(base, sub)
}
