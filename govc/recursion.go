package main

import (
	"fmt"
	"go/token"
	"go/types"
	"sort"
	"strings"

	"golang.org/x/tools/go/ssa"
)

// Recursion obligations (C08): a stack overflow is not a panic Go lets the library recover, so every
// recursive cycle of the library's call graph must be bounded.  For each strongly connected component
// with a cycle, some member must carry a clause
//
//	recursion guarded <field> <limit>   the function counts its activations in <field> and refuses to go
//	                                    deeper than <limit>; removing it from the graph must break every
//	                                    cycle of the component (checked), and its body must compare the
//	                                    counter with the limit and increment it (checked structurally)
//	recursion structural <reason>       the recursion descends a finite acyclic data structure (AST, object
//	                                    nesting, host value); stated, not checked
//
// Calls through function values go to every function that `implements` a typed contract of that type,
// interface calls to every implementer in the module.
func (p *Program) recursionObligations() []sob {
	funcs := p.libraryFuncs()
	idx := map[*ssa.Function]int{}
	for i, f := range funcs {
		idx[f] = i
	}
	// functions registered as values of a typed contract
	implOf := map[string][]*ssa.Function{}
	for k, c := range p.contracts.byKey {
		if t := c.Props["implements"]; t != "" {
			if f := p.funcs[k]; f != nil {
				implOf[strings.Fields(t)[0]] = append(implOf[strings.Fields(t)[0]], f)
			}
		}
	}
	succ := make([][]int, len(funcs))
	for i, f := range funcs {
		seen := map[int]bool{}
		add := func(g *ssa.Function) {
			if j, ok := idx[g]; ok && !seen[j] {
				seen[j] = true
				succ[i] = append(succ[i], j)
			}
		}
		for _, b := range f.Blocks {
			for _, in := range b.Instrs {
				ci, ok := in.(ssa.CallInstruction)
				if !ok {
					continue
				}
				c := ci.Common()
				for _, g := range p.callees(c) {
					add(g)
				}
				if _, isFn := c.Value.(*ssa.Function); !isFn && !c.IsInvoke() {
					if _, isB := c.Value.(*ssa.Builtin); !isB {
						if tc := p.typedContract(c.Value.Type()); tc != nil {
							for _, g := range implOf[tc.Typed] {
								add(g)
							}
						}
					}
				}
			}
		}
		// closures defined in f run on f's behalf
		for _, af := range f.AnonFuncs {
			add(af)
		}
	}
	sccs := tarjan(len(funcs), succ)
	var out []sob
	for _, comp := range sccs {
		cyclic := len(comp) > 1
		if !cyclic {
			for _, j := range succ[comp[0]] {
				if j == comp[0] {
					cyclic = true
				}
			}
		}
		if !cyclic {
			continue
		}
		var names []string
		in := map[int]bool{}
		for _, i := range comp {
			names = append(names, p.keyOf[funcs[i]])
			in[i] = true
		}
		sort.Strings(names)
		name := "recursion." + names[0]
		desc := fmt.Sprintf("recursive cycle through %d function(s): %s", len(names), trunc(strings.Join(names, ", "), 300))
		ok := false
		detail := "no member of the cycle carries a `recursion guarded <field> <limit>` or `recursion structural <reason>` clause"
		sccSet := map[*ssa.Function]bool{}
		for _, i := range comp {
			sccSet[funcs[i]] = true
		}
		// all members that guard the recursion (there may be several: every cycle must pass through one)
		var guards []int
		for _, i := range comp {
			c := p.contracts.byKey[p.keyOf[funcs[i]]]
			if c == nil || c.Props["recursion"] == "" {
				continue
			}
			f := strings.Fields(c.Props["recursion"])
			switch f[0] {
			case "structural":
				ok = true
				detail = "stated: " + c.Props["recursion"] + " (not checked)"
			case "guarded":
				if len(f) < 3 {
					detail = "malformed guarded clause"
					continue
				}
				if why := guardShape(funcs[i], f[1], sccSet); why != "" {
					detail = p.keyOf[funcs[i]] + ": " + why
					continue
				}
				guards = append(guards, i)
			}
		}
		if !ok && len(guards) > 0 {
			if acyclicWithout(comp, succ, guards) {
				ok = true
				var gn []string
				for _, g := range guards {
					gn = append(gn, p.keyOf[funcs[g]])
				}
				detail = "every cycle passes through a function that counts its activations and stops at a constant limit: " + strings.Join(gn, ", ")
			} else {
				detail = "a cycle of the component avoids the guard function(s)"
			}
		}
		out = append(out, sob{Name: name, OK: ok, Src: desc, Detail: detail})
	}
	sort.Slice(out, func(a, b int) bool { return out[a].Name < out[b].Name })
	return out
}

func acyclicWithout(comp []int, succ [][]int, drop []int) bool {
	in := map[int]bool{}
	for _, i := range comp {
		in[i] = true
	}
	for _, d := range drop {
		// a guard may call itself (behind its own check): only edges between the others matter
		delete(in, d)
	}
	state := map[int]int{}
	var visit func(i int) bool
	visit = func(i int) bool {
		state[i] = 1
		for _, j := range succ[i] {
			if !in[j] {
				continue
			}
			if state[j] == 1 {
				return false
			}
			if state[j] == 0 && !visit(j) {
				return false
			}
		}
		state[i] = 2
		return true
	}
	for i := range in {
		if state[i] == 0 && !visit(i) {
			return false
		}
	}
	return true
}

// guardShape: the function increments the named field of its receiver and compares it with a constant,
// and the branch taken beyond the limit returns without calling anything of the module
func guardShape(f *ssa.Function, field string, inSCC map[*ssa.Function]bool) string {
	inc, cmp := false, false
	for _, b := range f.Blocks {
		for _, in := range b.Instrs {
			switch x := in.(type) {
			case *ssa.Store:
				if fa, ok := x.Addr.(*ssa.FieldAddr); ok && fieldName(fa) == field {
					if bo, ok := x.Val.(*ssa.BinOp); ok && bo.Op == token.ADD {
						inc = true
					}
				}
			case *ssa.If:
				bo, ok := x.Cond.(*ssa.BinOp)
				if !ok || (bo.Op != token.GTR && bo.Op != token.GEQ) {
					continue
				}
				if _, isConst := bo.Y.(*ssa.Const); !isConst {
					continue
				}
				if ld, ok := bo.X.(*ssa.UnOp); ok {
					if fa, ok := ld.X.(*ssa.FieldAddr); ok && fieldName(fa) == field {
						// the "beyond the limit" successor must not call into the module
						quiet := true
						for _, in2 := range b.Succs[0].Instrs {
							ci, ok := in2.(ssa.CallInstruction)
							if !ok {
								continue
							}
							if _, isDefer := in2.(*ssa.Defer); isDefer {
								continue
							}
							switch g := ci.Common().Value.(type) {
							case *ssa.Function:
								if inSCC[g] {
									quiet = false
								}
							case *ssa.Builtin:
							default:
								quiet = false // a call through a function value or an interface: could re-enter the cycle
							}
						}
						if quiet {
							cmp = true
						}
					}
				}
			}
		}
	}
	switch {
	case !inc:
		return "does not increment " + field
	case !cmp:
		return "does not stop when " + field + " exceeds a constant limit"
	}
	return ""
}

func fieldName(fa *ssa.FieldAddr) string {
	pt, ok := fa.X.Type().Underlying().(*types.Pointer)
	if !ok {
		return ""
	}
	st, ok := pt.Elem().Underlying().(*types.Struct)
	if !ok || fa.Field >= st.NumFields() {
		return ""
	}
	return st.Field(fa.Field).Name()
}

func tarjan(n int, succ [][]int) [][]int {
	index := make([]int, n)
	low := make([]int, n)
	on := make([]bool, n)
	for i := range index {
		index[i] = -1
	}
	var stack []int
	var out [][]int
	next := 0
	var strong func(v int)
	strong = func(v int) {
		index[v], low[v] = next, next
		next++
		stack = append(stack, v)
		on[v] = true
		for _, w := range succ[v] {
			if index[w] < 0 {
				strong(w)
				if low[w] < low[v] {
					low[v] = low[w]
				}
			} else if on[w] && index[w] < low[v] {
				low[v] = index[w]
			}
		}
		if low[v] == index[v] {
			var comp []int
			for {
				w := stack[len(stack)-1]
				stack = stack[:len(stack)-1]
				on[w] = false
				comp = append(comp, w)
				if w == v {
					break
				}
			}
			out = append(out, comp)
		}
	}
	for v := 0; v < n; v++ {
		if index[v] < 0 {
			strong(v)
		}
	}
	return out
}
