package main

// Solver back ends: z3-new 5.1.0, z3 4.8.12, cvc5 1.0 raced per obligation.

import (
	"bytes"
	"context"
	"crypto/sha256"
	"encoding/hex"
	"fmt"
	"os"
	"os/exec"
	"path/filepath"
	"strings"
	"sync"
	"sync/atomic"
	"time"
)

type solverRes struct {
	verdict string // unsat sat unknown timeout error
	out     string
	solver  string
	secs    float64
}

var cacheDir = "/verif/.cache"

func runSolver(name, query string, timeout time.Duration) solverRes {
	return runSolverCtx(context.Background(), name, query, timeout)
}

func runSolverCtx(parent context.Context, name, query string, timeout time.Duration) solverRes {
	var cmd *exec.Cmd
	ctx, cancel := context.WithTimeout(parent, timeout+2*time.Second)
	defer cancel()
	secs := int(timeout.Seconds())
	if secs < 1 {
		secs = 1
	}
	switch name {
	case "z3-new":
		cmd = exec.CommandContext(ctx, "z3-new", "-in", fmt.Sprintf("-T:%d", secs))
	case "z3":
		cmd = exec.CommandContext(ctx, "z3", "-in", "-smt2", fmt.Sprintf("-T:%d", secs))
	case "cvc5":
		cmd = exec.CommandContext(ctx, "cvc5", "--lang=smt2", fmt.Sprintf("--tlimit=%d", secs*1000), "--produce-models", "-")
	}
	cmd.Stdin = strings.NewReader(query)
	var out bytes.Buffer
	cmd.Stdout = &out
	cmd.Stderr = &out
	t0 := time.Now()
	err := cmd.Run()
	el := time.Since(t0).Seconds()
	o := out.String()
	// the verdict is the first line that is not a warning (z3 warns about patterns it cannot use and then
	// answers as usual)
	first := ""
	for _, l := range strings.Split(o, "\n") {
		l = strings.TrimSpace(l)
		if l == "" || strings.HasPrefix(l, "WARNING") {
			continue
		}
		first = l
		break
	}
	res := solverRes{out: o, solver: name, secs: el}
	switch {
	case first == "unsat":
		res.verdict = "unsat"
	case first == "sat":
		res.verdict = "sat"
	case first == "unknown":
		res.verdict = "unknown"
	case first == "timeout" || ctx.Err() != nil:
		res.verdict = "timeout"
	case strings.Contains(o, "timeout") || strings.Contains(o, "interrupted"):
		res.verdict = "timeout"
	default:
		res.verdict = "error"
		if err != nil && o == "" {
			res.out = err.Error()
		}
	}
	return res
}

func cacheKey(q string) string {
	h := sha256.Sum256([]byte(q))
	return hex.EncodeToString(h[:])
}

func cacheGet(q string) bool {
	_, err := os.Stat(filepath.Join(cacheDir, cacheKey(q)))
	return err == nil
}

func cacheSolver(q string) string {
	b, err := os.ReadFile(filepath.Join(cacheDir, cacheKey(q)))
	if err != nil {
		return "cache"
	}
	return string(b) + "(cached)"
}

func cachePut(q, solver string) {
	os.MkdirAll(cacheDir, 0o755)
	os.WriteFile(filepath.Join(cacheDir, cacheKey(q)), []byte(solver), 0o644)
}

var statBatchHit, statBatchMiss, statSingleHit, statSingleMiss int64

type solveOpts struct {
	timeout  time.Duration
	all      bool // run every solver and cross-check
	noCache  bool
	noSplit  bool
	parallel int
}

// discharge decides one obligation.
func discharge(vc *VC, o *Obligation, opts solveOpts) {
	ck := vc.oblKey(o)
	if !opts.noCache && !opts.all && cacheGet(ck) {
		atomic.AddInt64(&statSingleHit, 1)
		o.Status = "proved"
		o.Solver = cacheSolver(ck)
		return
	}
	if !opts.all {
		// a lighter query first: parameters do not propagate relevance, so only facts about the
		// state the goal reads are kept (fewer assumptions: sound; undecided falls through to the full query)
		lq := vc.queryLight(o)
		if r := runSolver("z3-new", lq, 3*time.Second); r.verdict == "unsat" {
			o.Status, o.Solver, o.Time = "proved", "z3-new(light)", r.secs
			cachePut(ck, o.Solver)
			return
		}
	}
	q := vc.query(o, false)
	o.Query = q
	if len(q) > 3<<20 {
		o.Status = "unknown"
		o.Detail = fmt.Sprintf("query of %d bytes exceeds the VC size cap", len(q))
		return
	}
	atomic.AddInt64(&statSingleMiss, 1)
	t0 := time.Now()
	defer func() { o.Time = time.Since(t0).Seconds() }()
	var results []solverRes
	if opts.all {
		var wg sync.WaitGroup
		results = make([]solverRes, 3)
		for i, s := range []string{"z3-new", "z3", "cvc5"} {
			wg.Add(1)
			go func(i int, s string) {
				defer wg.Done()
				results[i] = runSolver(s, q, opts.timeout)
			}(i, s)
		}
		wg.Wait()
	} else {
		// phase 1: z3-new with a short budget decides the bulk; phase 2: all three raced, first verdict wins
		first := 2 * time.Second
		if opts.timeout < first {
			first = opts.timeout
		}
		var r solverRes
		if strings.Contains(o.Goal, "fp.") {
			r = solverRes{verdict: "skipped", solver: "z3-new"} // z3 5.x is slow on FP goals under quantifiers: race at once
		} else {
			r = runSolver("z3-new", q, first)
		}
		results = append(results, r)
		if r.verdict != "unsat" && r.verdict != "sat" {
			ctx, cancel := context.WithCancel(context.Background())
			ch := make(chan solverRes, 3)
			names := []string{"z3", "cvc5", "z3-new"}
			for _, s := range names {
				go func(s string) { ch <- runSolverCtx(ctx, s, q, opts.timeout) }(s)
			}
			for i := 0; i < len(names); i++ {
				rr := <-ch
				results = append(results, rr)
				if rr.verdict == "unsat" || rr.verdict == "sat" {
					break
				}
			}
			cancel()
		}
	}
	var unsat, sat *solverRes
	var notes []string
	for i := range results {
		r := &results[i]
		notes = append(notes, fmt.Sprintf("%s=%s(%.2fs)", r.solver, r.verdict, r.secs))
		if r.verdict == "unsat" && unsat == nil {
			unsat = r
		}
		if r.verdict == "sat" && sat == nil {
			sat = r
		}
		if r.verdict == "error" {
			notes = append(notes, r.solver+": "+trunc(r.out, 200))
		}
	}
	o.Detail = strings.Join(notes, " ")
	switch {
	case unsat != nil && sat != nil:
		o.Status = "error"
		o.Detail = "solvers disagree: " + o.Detail
	case unsat != nil:
		o.Status = "proved"
		o.Solver = unsat.solver
		cachePut(ck, unsat.solver)
	case sat != nil:
		o.Status = "failed"
		o.Solver = sat.solver
		// fetch a model
		m := runSolver(sat.solver, vc.query(o, true), opts.timeout)
		o.Model = m.out
	default:
		o.Status = "unknown"
		if len(o.Splits) > 0 && !opts.noSplit {
			// case analysis on the recorded hints: proved iff every case is unsat
			n := len(o.Splits)
			all := true
			for mask := 0; mask < 1<<n && all; mask++ {
				var extra strings.Builder
				for i, t := range o.Splits {
					if mask&(1<<i) != 0 {
						fmt.Fprintf(&extra, "(assert %s)\n", t)
					} else {
						fmt.Fprintf(&extra, "(assert (not %s))\n", t)
					}
				}
				qs := strings.Replace(q, "(check-sat)", extra.String()+"(check-sat)", 1)
				ok := false
				ctx, cancel := context.WithCancel(context.Background())
				ch := make(chan solverRes, 3)
				names := []string{"z3-new", "z3", "cvc5"}
				for _, sname := range names {
					go func(sname string) { ch <- runSolverCtx(ctx, sname, qs, opts.timeout) }(sname)
				}
				for i := 0; i < len(names); i++ {
					rr := <-ch
					if rr.verdict == "unsat" {
						ok = true
						break
					}
					if rr.verdict == "sat" {
						break
					}
				}
				cancel()
				if !ok {
					all = false
				}
			}
			if all {
				o.Status = "proved"
				o.Solver = fmt.Sprintf("case-split(%d)", 1<<n)
				o.Detail += " ; decided by case analysis on " + strings.Join(o.Splits, ", ")
				cachePut(ck, o.Solver)
				return
			}
		}
		// candidate counterexample: drop every quantified assumption (the goal is kept) and ask again.
		// A model found this way may be spurious and is only trusted once it replays on the real code.
		var b strings.Builder
		lines := strings.Split(vc.query(o, true), "\n")
		for i, l := range lines {
			if i < len(lines)-4 && strings.HasPrefix(l, "(assert") && (strings.Contains(l, "(forall ") || strings.Contains(l, "(exists ")) {
				continue
			}
			b.WriteString(l)
			b.WriteString("\n")
		}
		m := runSolver("z3-new", b.String(), 5*time.Second)
		if m.verdict == "sat" {
			o.Model = m.out
			o.Candidate = true
		}
	}
}

// dischargeBatches: obligations at one program point share their context; they are first tried
// together in one incremental z3 run (push/pop per goal).  Whatever is not "unsat" there is decided
// individually afterwards with the full solver race.
func dischargeBatches(jobs []job, opts solveOpts) []job {
	type key struct {
		vc     *VC
		prefix int
		block  interface{}
		n      int
	}
	groups := map[key][]job{}
	var order []key
	chunk := map[key]int{}
	for _, j := range jobs {
		k := key{j.vc, j.o.Prefix, j.o.Block, 0}
		k.n = chunk[k] / 8 // at most 8 goals per solver run, so that the work spreads over the cores
		k0 := key{j.vc, j.o.Prefix, j.o.Block, 0}
		chunk[k0]++
		if _, ok := groups[k]; !ok {
			order = append(order, k)
		}
		groups[k] = append(groups[k], j)
	}
	var rest []job
	var mu sync.Mutex
	ch := make(chan key)
	var wg sync.WaitGroup
	n := opts.parallel
	if n <= 0 {
		n = 16
	}
	for i := 0; i < n; i++ {
		wg.Add(1)
		go func() {
			defer wg.Done()
			for k := range ch {
				g := groups[k]
				if len(g) < 3 {
					mu.Lock()
					rest = append(rest, g...)
					mu.Unlock()
					continue
				}
				var os []*Obligation
				for _, j := range g {
					os = append(os, j.o)
				}
				var kb strings.Builder
				for _, o := range os {
					kb.WriteString(g[0].vc.oblKey(o))
					kb.WriteString("\n")
				}
				bk := kb.String()
				t0 := time.Now()
				if !opts.noCache && cacheGet(bk) {
					atomic.AddInt64(&statBatchHit, 1)
					for _, o := range os {
						o.Status, o.Solver = "proved", "z3-new(batch,cached)"
					}
					continue
				}
				atomic.AddInt64(&statBatchMiss, 1)
				q := g[0].vc.queryBatch(os)
				budget := time.Duration(len(os))*time.Second + 5*time.Second
				r := runSolver("z3-new", q, budget)
				el := time.Since(t0).Seconds()
				var verdicts []string
				for _, l := range strings.Split(r.out, "\n") {
					l = strings.TrimSpace(l)
					if l == "unsat" || l == "sat" || l == "unknown" {
						verdicts = append(verdicts, l)
					}
				}
				all := len(verdicts) == len(os) && !strings.Contains(r.out, "(error")
				for i, o := range os {
					if all && verdicts[i] == "unsat" {
						o.Status, o.Solver, o.Time = "proved", "z3-new(batch)", el/float64(len(os))
					} else {
						all = false
						mu.Lock()
						rest = append(rest, g[i])
						mu.Unlock()
					}
				}
				if all {
					cachePut(bk, "z3-new(batch)")
				}
			}
		}()
	}
	for _, k := range order {
		ch <- k
	}
	close(ch)
	wg.Wait()
	return rest
}

func dischargeAll(jobs []job, opts solveOpts) {
	if !opts.all {
		jobs = dischargeBatches(jobs, opts)
	}
	n := opts.parallel
	if n <= 0 {
		n = 16
	}
	ch := make(chan job)
	var wg sync.WaitGroup
	for i := 0; i < n; i++ {
		wg.Add(1)
		go func() {
			defer wg.Done()
			for j := range ch {
				discharge(j.vc, j.o, opts)
			}
		}()
	}
	for _, j := range jobs {
		ch <- j
	}
	close(ch)
	wg.Wait()
}

type job struct {
	vc *VC
	o  *Obligation
}
