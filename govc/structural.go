package main

// Structural obligation kinds (effects, lock discipline, dominance, determinism): filled in per property.

func addStructuralCoverage(p *Program, id, tier string, res *propResult, violLines, knownLines *[]string, findings []*finding) {
}

func propertyAssumptions(id string) []string {
	return paperLemmas[id]
}

var paperLemmas = map[string][]string{}
