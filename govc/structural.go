package main

// Structural obligation kinds (DESIGN.md 2.6): function-modular checks over the SSA that need no
// solver: effects (C10), lock discipline (C11), poll dominance (C09), determinism (C19),
// recursion (C08).  Each yields named obligations like the SMT ones.

import (
	"fmt"
	"go/constant"
	"go/token"
	"go/types"
	"sort"
	"strings"

	"golang.org/x/tools/go/ssa"
)

type sob struct {
	Name   string
	OK     bool
	Src    string
	Detail string
	Pos    token.Position
}

func (p *Program) libraryFuncs() []*ssa.Function {
	var out []*ssa.Function
	for _, k := range p.sortedFuncKeys() {
		f := p.funcs[k]
		if p.isTestFunc(f) || strings.HasPrefix(k, "cmd/") || strings.HasPrefix(k, "_examples") || strings.HasPrefix(k, "misc") {
			continue
		}
		out = append(out, f)
	}
	return out
}

func (p *Program) posOf(in ssa.Instruction) token.Position {
	if in.Pos().IsValid() {
		return p.prog.Fset.Position(in.Pos())
	}
	return token.Position{}
}

// ---------------------------------------------------------------------------------------------
// C10: effects.  allowed = {stdout, env, clock, tzdb}; every external callee is classified by the
// table below; anything not in the table is forbidden.

var effectTable = map[string]string{
	"fmt.Print": "stdout", "fmt.Printf": "stdout", "fmt.Println": "stdout",
	"os.Getenv": "env", "time.Now": "clock", "time.LoadLocation": "tzdb",
	"fmt.Sprintf": "pure", "fmt.Sprint": "pure", "fmt.Errorf": "pure", "errors.New": "pure",
	"time.Unix": "pure", "context.Background": "pure", "hash/fnv.New64a": "pure",
	"sort.Sort": "pure", "sort.Slice": "pure", "sort.Strings": "pure", "sort.Ints": "pure", "sort.SliceStable": "pure", "sort.Stable": "pure",
	"regexp.Compile": "pure", "regexp.MustCompile": "pure", "regexp.QuoteMeta": "pure", "regexp.MatchString": "pure",
	"reflect.ValueOf": "pure", "reflect.Indirect": "pure", "reflect.TypeOf": "pure", "reflect.DeepEqual": "pure",
	"(*sync.Mutex).Lock": "pure", "(*sync.Mutex).Unlock": "pure", "(*sync.RWMutex).Lock": "pure", "(*sync.RWMutex).Unlock": "pure",
	"(*sync.RWMutex).RLock": "pure", "(*sync.RWMutex).RUnlock": "pure",
	"(encoding/binary.bigEndian).Uint16": "pure", "(encoding/binary.bigEndian).PutUint16": "pure",
}

// packages all of whose package-level functions are free of effects on the outside world
var effectPurePkgs = map[string]bool{"strings": true, "strconv": true, "unicode": true, "unicode/utf8": true, "math": true,
	"bytes": true, "errors": true, "unicode/utf16": true, "math/bits": true}

// receiver types whose methods only observe / build values in memory
var effectPureRecv = []string{"time.Time", "time.Location", "time.Month", "time.Weekday", "time.Duration", "regexp.Regexp",
	"strings.Builder", "bytes.Buffer", "strings.Reader", "strings.Replacer"}

// reflect: data accessors are pure; invocation (Call, Method...) is forbidden
var reflectForbidden = map[string]bool{"Call": true, "CallSlice": true, "Method": true, "MethodByName": true, "Send": true, "Recv": true,
	"TrySend": true, "TryRecv": true, "UnsafeAddr": true, "UnsafePointer": true, "Pointer": true}

// methods of interfaces implemented outside the module
var effectPureIfaceMethods = map[string]bool{"error.Error": true, "context.Context.Done": true, "context.Context.Err": true,
	"context.Context.Deadline": true, "context.Context.Value": true, "hash.Hash64.Sum64": true, "hash.Hash64.Write": true,
	"hash.Hash64.Reset": true, "fmt.Stringer.String": true, "sort.Interface.Len": true, "sort.Interface.Less": true, "sort.Interface.Swap": true}

var allowedImports = map[string]bool{"bytes": true, "context": true, "encoding/binary": true, "errors": true, "fmt": true, "hash/fnv": true,
	"math": true, "os": true, "reflect": true, "regexp": true, "sort": true, "strconv": true, "strings": true, "sync": true, "time": true,
	"unicode": true, "unicode/utf8": true}

func classifyExternal(f *ssa.Function) string {
	name := f.String()
	if e, ok := effectTable[name]; ok {
		return e
	}
	if f.Pkg != nil && effectPurePkgs[f.Pkg.Pkg.Path()] && f.Signature.Recv() == nil {
		return "pure"
	}
	if recv := f.Signature.Recv(); recv != nil {
		rt := types.TypeString(recv.Type(), nil)
		rt = strings.TrimPrefix(rt, "*")
		for _, ok := range effectPureRecv {
			if rt == ok {
				return "pure"
			}
		}
		if rt == "reflect.Value" || rt == "reflect.rtype" {
			if reflectForbidden[f.Name()] {
				return "forbidden"
			}
			return "pure"
		}
	}
	return "forbidden"
}

func (p *Program) effectObligations() []sob {
	var out []sob
	allowed := map[string]bool{"pure": true, "stdout": true, "env": true, "clock": true, "tzdb": true}
	// imports of the library packages
	for _, sp := range p.spkgs {
		if sp == nil || !isModulePkg(sp.Pkg) || strings.Contains(sp.Pkg.Path(), "/cmd/") || strings.Contains(sp.Pkg.Path(), "_examples") || strings.Contains(sp.Pkg.Path(), "/misc") {
			continue
		}
		for _, imp := range sp.Pkg.Imports() {
			if isModulePkg(imp) {
				continue
			}
			ok := allowedImports[imp.Path()]
			out = append(out, sob{Name: "effects.import." + shortPkg(sp.Pkg.Path()) + "." + imp.Path(), OK: ok,
				Src: "package " + shortPkg(sp.Pkg.Path()) + " imports " + imp.Path(), Detail: "imports outside the allowed set (file, network, process, unsafe, syscall ... packages) are forbidden"})
		}
	}
	for _, f := range p.libraryFuncs() {
		key := p.keyOf[f]
		cnt := map[string]int{}
		for _, b := range f.Blocks {
			for _, in := range b.Instrs {
				// external functions used as values (callbacks)
				var ops []*ssa.Value
				for _, op := range in.Operands(ops) {
					if op == nil || *op == nil {
						continue
					}
					if fv, ok := (*op).(*ssa.Function); ok && (fv.Pkg == nil || !isModulePkg(fv.Pkg.Pkg)) {
						if ci, isCall := in.(ssa.CallInstruction); isCall && ci.Common().Value == *op && !ci.Common().IsInvoke() {
							continue // the callee position is handled below
						}
						if fv.Synthetic != "" && fv.Pkg == nil {
							continue // wrappers, bound methods of module types
						}
						eff := classifyExternal(fv)
						cnt["value."+fv.String()]++
						out = append(out, sob{Name: fmt.Sprintf("%s#effects.value.%s.%d", key, fv.String(), cnt["value."+fv.String()]), OK: allowed[eff],
							Src: "external function " + fv.String() + " used as a value", Detail: "effect class " + eff, Pos: p.posOf(in)})
					}
				}
				ci, ok := in.(ssa.CallInstruction)
				if !ok {
					continue
				}
				c := ci.Common()
				switch {
				case c.IsInvoke():
					it := c.Value.Type().Underlying().(*types.Interface)
					if len(p.implementers(it, c.Method.Name())) > 0 {
						continue // module implementers are checked themselves
					}
					n := types.TypeString(c.Value.Type(), nil) + "." + c.Method.Name()
					if types.TypeString(c.Value.Type(), nil) == "reflect.Type" {
						n = "reflect.Type." + c.Method.Name()
					}
					ok := effectPureIfaceMethods[n] || (strings.HasPrefix(n, "reflect.Type.") && !reflectForbidden[c.Method.Name()])
					cnt[n]++
					out = append(out, sob{Name: fmt.Sprintf("%s#effects.call.%s.%d", key, n, cnt[n]), OK: ok, Src: "call of external interface method " + n,
						Detail: "only listed observer methods of external interfaces are allowed", Pos: p.posOf(in)})
				default:
					fn, isFn := c.Value.(*ssa.Function)
					if !isFn {
						continue // function values: module closures (checked themselves) or host functions (the stated exception)
					}
					if fn.Pkg != nil && isModulePkg(fn.Pkg.Pkg) {
						continue
					}
					if fn.Name() == "init" && fn.Signature.Recv() == nil && fn.Synthetic != "" {
						continue // the initializer of an imported package: decided by the effects.import obligation of that import
					}
					eff := classifyExternal(fn)
					cnt[fn.String()]++
					out = append(out, sob{Name: fmt.Sprintf("%s#effects.call.%s.%d", key, fn.String(), cnt[fn.String()]), OK: allowed[eff],
						Src: "call of " + fn.String(), Detail: "effect class " + eff + " (allowed: pure, stdout, env, clock, tzdb)", Pos: p.posOf(in)})
				}
			}
		}
	}
	// the built-ins registered by environment.New are module functions
	if f := p.funcs["environment.New"]; f != nil {
		n := 0
		for _, b := range f.Blocks {
			for _, in := range b.Instrs {
				ci, ok := in.(ssa.CallInstruction)
				if !ok {
					continue
				}
				callee, _ := ci.Common().Value.(*ssa.Function)
				if callee == nil || callee.Name() != "SetFunction" {
					continue
				}
				arg := ci.Common().Args[2]
				if mi, ok := arg.(*ssa.MakeInterface); ok {
					arg = mi.X
				}
				fv, isFn := arg.(*ssa.Function)
				n++
				ok2 := isFn && fv.Pkg != nil && isModulePkg(fv.Pkg.Pkg)
				out = append(out, sob{Name: fmt.Sprintf("environment.New#effects.builtin.%d", n), OK: ok2, Src: "a registered built-in is a function of the module (its own effects are checked)", Pos: p.posOf(in)})
			}
		}
	}
	return out
}

// ---------------------------------------------------------------------------------------------
// C11: lock discipline.

func (p *Program) lockObligations() []sob {
	var out []sob
	// (1) no goroutines are started by the library
	for _, f := range p.libraryFuncs() {
		for _, b := range f.Blocks {
			for _, in := range b.Instrs {
				if _, ok := in.(*ssa.Go); ok {
					out = append(out, sob{Name: p.keyOf[f] + "#locks.nogo", OK: false, Src: "go statement in library code", Pos: p.posOf(in)})
				}
			}
		}
	}
	// (2) package-level variables: immutable after init, or every access under the variable's lock
	guards := map[string]string{} // global -> mutex global (from contracts: "guarded_by" props on pkg-level pseudo contracts)
	for _, c := range p.contracts.byKey {
		for k, v := range c.Props {
			if k == "guarded_global" {
				f := strings.Fields(v)
				if len(f) == 2 {
					guards[c.Pkg+"."+f[0]] = c.Pkg + "." + f[1]
				}
			}
		}
	}
	for _, sp := range p.spkgs {
		if sp == nil || !isModulePkg(sp.Pkg) || strings.Contains(sp.Pkg.Path(), "/cmd/") || strings.Contains(sp.Pkg.Path(), "_examples") || strings.Contains(sp.Pkg.Path(), "/misc") {
			continue
		}
		var names []string
		for n, m := range sp.Members {
			if _, ok := m.(*ssa.Global); ok {
				names = append(names, n)
			}
		}
		sort.Strings(names)
		for _, n := range names {
			g := sp.Members[n].(*ssa.Global)
			if strings.HasPrefix(n, "init$") || n == "_" {
				continue
			}
			gname := shortPkg(sp.Pkg.Path()) + "." + n
			if et := g.Type().(*types.Pointer).Elem(); strings.HasPrefix(types.TypeString(et, nil), "sync.") {
				switch types.TypeString(et, nil) {
				case "sync.Mutex", "sync.RWMutex", "sync.Once", "sync.WaitGroup":
					continue // the locks themselves
				}
				// a concurrent container (sync.Map, sync.Pool ...) is safe in itself, but what it hands out is
				// shared by every evaluator, and an evaluator's own lock does not cover another evaluator
				out = append(out, sob{Name: "locks.global." + gname, OK: false, Src: gname + " is a package-level concurrent container",
					Detail: "values handed out by a container shared by all evaluators are shared mutable state unless they are immutable; no contract states that"})
				continue
			}
			var writers, unguarded []string
			for _, f := range p.libraryFuncs() {
				if f.Pkg != sp && !p.refersTo(f, g) {
					continue
				}
				if f.Name() == "init" || strings.HasPrefix(f.Name(), "init#") {
					continue
				}
				w, acc := p.globalAccesses(f, g)
				if w {
					writers = append(writers, p.keyOf[f])
				}
				if mu, ok := guards[gname]; ok && acc {
					if !p.accessesUnderLock(f, g, mu) {
						unguarded = append(unguarded, p.keyOf[f])
					}
				}
			}
			sort.Strings(writers)
			sort.Strings(unguarded)
			// the variable itself may never change and still hand out shared mutable state: objects with fields
			// that are written after construction (a String's iteration position), or external stateful values
			// (a hasher, a buffer).  Every evaluator of the process would share them without any lock.
			if _, guarded := guards[gname]; !guarded {
				if why := p.holdsMutable(g.Type().(*types.Pointer).Elem(), map[types.Type]bool{}); why != "" {
					out = append(out, sob{Name: "locks.shared." + gname, OK: false, Src: gname + " holds state that every evaluator of the process shares",
						Detail: why + "; no lock covers it and the evaluator's own lock does not reach other evaluators"})
				}
			}
			if mu, ok := guards[gname]; ok {
				out = append(out, sob{Name: "locks.global." + gname, OK: len(unguarded) == 0, Src: gname + " is guarded by " + mu,
					Detail: "accesses outside the lock in: " + strings.Join(unguarded, ", ")})
				continue
			}
			out = append(out, sob{Name: "locks.global." + gname, OK: len(writers) == 0, Src: gname + " is immutable after package initialisation (no lock needed)",
				Detail: "written (or its map/slice contents written) outside init by: " + strings.Join(writers, ", ")})
		}
	}
	// (3) Eval.Run: the call of Execute lies between Lock and Unlock of e.mutex; Prepare holds the lock to its end
	if f := p.funcs["evalfilter.(*Eval).Run"]; f != nil {
		ok, detail := p.callBetweenLockUnlock(f, "Execute")
		out = append(out, sob{Name: "evalfilter.(*Eval).Run#locks.critical", OK: ok, Src: "Execute is called with e.mutex held and the lock is released on every path", Detail: detail})
	}
	if f := p.funcs["evalfilter.(*Eval).Prepare"]; f != nil {
		ok, detail := p.lockHeldToEnd(f)
		out = append(out, sob{Name: "evalfilter.(*Eval).Prepare#locks.critical", OK: ok, Src: "Prepare locks e.mutex first and unlocks it by defer", Detail: detail})
	}
	return out
}

// mutableStructs: module struct types with a field that is written after construction (a store through a
// pointer that is not the fresh allocation of a composite literal or new)
func (p *Program) mutableStructs() map[string]string {
	if p.mutStructs != nil {
		return p.mutStructs
	}
	p.mutStructs = map[string]string{}
	for _, f := range p.libraryFuncs() {
		for _, b := range f.Blocks {
			for _, in := range b.Instrs {
				st, ok := in.(*ssa.Store)
				if !ok {
					continue
				}
				fa, ok := st.Addr.(*ssa.FieldAddr)
				if !ok {
					continue
				}
				if _, fresh := fa.X.(*ssa.Alloc); fresh {
					continue
				}
				pt, ok := fa.X.Type().Underlying().(*types.Pointer)
				if !ok {
					continue
				}
				nt, ok := types.Unalias(pt.Elem()).(*types.Named)
				if !ok || nt.Obj().Pkg() == nil || !isModulePkg(nt.Obj().Pkg()) {
					continue
				}
				key := nt.Obj().Pkg().Name() + "." + nt.Obj().Name()
				if _, seen := p.mutStructs[key]; !seen {
					p.mutStructs[key] = fieldNameOf(fa) + " (written by " + p.keyOf[f] + ")"
				}
			}
		}
	}
	return p.mutStructs
}

// holdsMutable: does a value of type t (transitively through pointers, containers and interfaces) reach
// state that can change after it was built?  Returns the reason, or "".
func (p *Program) holdsMutable(t types.Type, seen map[types.Type]bool) string {
	if seen[t] {
		return ""
	}
	seen[t] = true
	immutableExternal := map[string]bool{"*regexp.Regexp": true, "*time.Location": true, "time.Time": true, "time.Duration": true, "error": true}
	ts := types.TypeString(t, nil)
	if immutableExternal[ts] {
		return ""
	}
	switch tt := t.Underlying().(type) {
	case *types.Basic, *types.Signature:
		return ""
	case *types.Pointer:
		if nt, ok := types.Unalias(tt.Elem()).(*types.Named); ok && nt.Obj().Pkg() != nil {
			if isModulePkg(nt.Obj().Pkg()) {
				key := nt.Obj().Pkg().Name() + "." + nt.Obj().Name()
				if f, mut := p.mutableStructs()[key]; mut {
					return "it reaches *" + key + ", whose field " + f + " changes after construction"
				}
				return p.holdsMutable(tt.Elem(), seen)
			}
			return "it reaches the external stateful type " + ts
		}
		return p.holdsMutable(tt.Elem(), seen)
	case *types.Struct:
		if nt, ok := types.Unalias(t).(*types.Named); ok && nt.Obj().Pkg() != nil && !isModulePkg(nt.Obj().Pkg()) {
			if strings.HasPrefix(ts, "sync.") {
				return ""
			}
			return "it holds the external stateful type " + ts
		}
		for i := 0; i < tt.NumFields(); i++ {
			if why := p.holdsMutable(tt.Field(i).Type(), seen); why != "" {
				return why
			}
		}
		return ""
	case *types.Map:
		if why := p.holdsMutable(tt.Key(), seen); why != "" {
			return why
		}
		return p.holdsMutable(tt.Elem(), seen)
	case *types.Slice:
		return p.holdsMutable(tt.Elem(), seen)
	case *types.Array:
		return p.holdsMutable(tt.Elem(), seen)
	case *types.Interface:
		if nt, ok := types.Unalias(t).(*types.Named); ok && nt.Obj().Pkg() != nil && isModulePkg(nt.Obj().Pkg()) {
			for _, im := range p.allNamed {
				for _, cand := range []types.Type{types.NewPointer(im), im} {
					if _, isIface := im.Underlying().(*types.Interface); !isIface && types.Implements(cand, tt) {
						if why := p.holdsMutable(cand, seen); why != "" {
							return why
						}
					}
				}
			}
			return ""
		}
		if tt.NumMethods() == 0 {
			return "it is an empty interface (anything may be stored in it)"
		}
		return "it is the external stateful interface " + ts
	}
	return ""
}

func (p *Program) refersTo(f *ssa.Function, g *ssa.Global) bool {
	for _, b := range f.Blocks {
		for _, in := range b.Instrs {
			var ops []*ssa.Value
			for _, op := range in.Operands(ops) {
				if op != nil && *op == ssa.Value(g) {
					return true
				}
			}
		}
	}
	return false
}

// globalAccesses: does f write the global (or the contents of the map/slice/struct it holds)? does it access it at all?
func (p *Program) globalAccesses(f *ssa.Function, g *ssa.Global) (writes, accesses bool) {
	derived := map[ssa.Value]bool{g: true}
	for changed := true; changed; {
		changed = false
		for _, b := range f.Blocks {
			for _, in := range b.Instrs {
				v, ok := in.(ssa.Value)
				if !ok || derived[v] {
					continue
				}
				switch x := in.(type) {
				case *ssa.UnOp:
					if x.Op == token.MUL && derived[x.X] {
						// the value held in the global: only reference-like contents are tracked further
						switch x.Type().Underlying().(type) {
						case *types.Map, *types.Slice, *types.Pointer:
							derived[v] = true
							changed = true
						}
					}
				case *ssa.FieldAddr:
					if derived[x.X] {
						derived[v] = true
						changed = true
					}
				case *ssa.IndexAddr:
					if derived[x.X] {
						derived[v] = true
						changed = true
					}
				}
			}
		}
	}
	for _, b := range f.Blocks {
		for _, in := range b.Instrs {
			var ops []*ssa.Value
			for _, op := range in.Operands(ops) {
				if op != nil && *op != nil && derived[*op] {
					accesses = true
				}
			}
			switch x := in.(type) {
			case *ssa.Store:
				if derived[x.Addr] {
					writes = true
				}
			case *ssa.MapUpdate:
				if derived[x.Map] {
					writes = true
				}
			case ssa.CallInstruction:
				c := x.Common()
				if b, ok := c.Value.(*ssa.Builtin); ok && (b.Name() == "delete" || b.Name() == "append" || b.Name() == "copy") && len(c.Args) > 0 && derived[c.Args[0]] {
					writes = true
				}
			}
		}
	}
	return
}

func isMutexCall(in ssa.Instruction, method string, mu string, p *Program) bool {
	ci, ok := in.(ssa.CallInstruction)
	if !ok {
		return false
	}
	fn, ok := ci.Common().Value.(*ssa.Function)
	if !ok || fn.Name() != method || !strings.Contains(fn.String(), "sync.") {
		return false
	}
	if mu == "" {
		return true
	}
	if len(ci.Common().Args) == 0 {
		return false
	}
	if g, ok := ci.Common().Args[0].(*ssa.Global); ok {
		return shortPkg(g.Pkg.Pkg.Path())+"."+g.Name() == mu
	}
	return false
}

// accessesUnderLock: every instruction of f that touches g is dominated by a Lock/RLock of mu with no
// Unlock of mu in between on any path (checked block-wise: lock and access in the same block, or the
// function locks at entry and unlocks by defer)
func (p *Program) accessesUnderLock(f *ssa.Function, g *ssa.Global, mu string) bool {
	derived := map[ssa.Value]bool{g: true}
	for _, b := range f.Blocks {
		for _, in := range b.Instrs {
			if u, ok := in.(*ssa.UnOp); ok && u.Op == token.MUL && derived[u.X] {
				derived[u] = true
			}
		}
	}
	// case A: Lock at entry + deferred Unlock
	entryLocked := false
	if len(f.Blocks) > 0 {
		for _, in := range f.Blocks[0].Instrs {
			if isMutexCall(in, "Lock", mu, p) || isMutexCall(in, "RLock", mu, p) {
				entryLocked = true
			}
			if d, ok := in.(*ssa.Defer); ok && entryLocked {
				if fn, ok := d.Call.Value.(*ssa.Function); ok && (fn.Name() == "Unlock" || fn.Name() == "RUnlock") {
					return true
				}
			}
		}
	}
	// case B: within each block, the access lies between Lock and Unlock
	for _, b := range f.Blocks {
		held := false
		for _, in := range b.Instrs {
			if isMutexCall(in, "Lock", mu, p) || isMutexCall(in, "RLock", mu, p) {
				held = true
			}
			if isMutexCall(in, "Unlock", mu, p) || isMutexCall(in, "RUnlock", mu, p) {
				held = false
			}
			var ops []*ssa.Value
			for _, op := range in.Operands(ops) {
				if op != nil && *op != nil && derived[*op] {
					if _, isLockCall := in.(ssa.CallInstruction); isLockCall && (isMutexCall(in, "Lock", "", p) || isMutexCall(in, "Unlock", "", p) || isMutexCall(in, "RLock", "", p) || isMutexCall(in, "RUnlock", "", p)) {
						continue
					}
					if !held {
						return false
					}
				}
			}
		}
	}
	return true
}

func (p *Program) callBetweenLockUnlock(f *ssa.Function, callee string) (bool, string) {
	var lockB, callB *ssa.BasicBlock
	lockI, callI := -1, -1
	for _, b := range f.Blocks {
		for i, in := range b.Instrs {
			if isMutexCall(in, "Lock", "", p) && lockB == nil {
				lockB, lockI = b, i
			}
			if ci, ok := in.(ssa.CallInstruction); ok {
				if fn, ok := ci.Common().Value.(*ssa.Function); ok && fn.Name() == callee && callB == nil {
					callB, callI = b, i
				}
			}
		}
	}
	if lockB == nil || callB == nil {
		return false, "no Lock or no call of " + callee
	}
	if !(lockB == callB && lockI < callI) && !lockB.Dominates(callB) {
		return false, "Lock does not dominate the call"
	}
	// no Unlock between (same block case) and an Unlock on every path after the call
	for _, b := range f.Blocks {
		for i, in := range b.Instrs {
			if isMutexCall(in, "Unlock", "", p) {
				if b == callB && i < callI && (b != lockB || i > lockI) {
					return false, "Unlock before the call"
				}
			}
		}
	}
	// every return is reached through an Unlock (or a deferred one)
	for _, b := range f.Blocks {
		if _, isRet := b.Instrs[len(b.Instrs)-1].(*ssa.Return); !isRet {
			continue
		}
		if !p.unlockOnEveryPath(f, callB, b) {
			return false, "a path from the call to a return does not unlock"
		}
	}
	return true, ""
}

func (p *Program) unlockOnEveryPath(f *ssa.Function, from, ret *ssa.BasicBlock) bool {
	// the unlock instruction lives in a block that dominates the return and is dominated by (or is) the call block
	for _, b := range f.Blocks {
		has := false
		for _, in := range b.Instrs {
			if isMutexCall(in, "Unlock", "", p) {
				has = true
			}
			if d, ok := in.(*ssa.Defer); ok {
				if fn, ok := d.Call.Value.(*ssa.Function); ok && fn.Name() == "Unlock" {
					has = true
				}
			}
		}
		if has && (b == ret || b.Dominates(ret)) {
			return true
		}
	}
	return false
}

func (p *Program) lockHeldToEnd(f *ssa.Function) (bool, string) {
	if len(f.Blocks) == 0 {
		return false, "no body"
	}
	locked, deferred := false, false
	for _, in := range f.Blocks[0].Instrs {
		if isMutexCall(in, "Lock", "", p) {
			locked = true
		}
		if d, ok := in.(*ssa.Defer); ok && locked {
			if fn, ok := d.Call.Value.(*ssa.Function); ok && fn.Name() == "Unlock" {
				deferred = true
			}
		}
		if _, isCall := in.(*ssa.Call); isCall && !locked {
			if !isMutexCall(in, "Lock", "", p) {
				return false, "a call precedes Lock"
			}
		}
	}
	if !locked || !deferred {
		return false, "Lock / deferred Unlock not found in the entry block"
	}
	return true, ""
}

// ---------------------------------------------------------------------------------------------
// C09: the context poll dominates the dispatch of every instruction.

func (p *Program) pollObligations() []sob {
	var out []sob
	f := p.funcs["vm.(*VM).Run"]
	if f == nil {
		return []sob{{Name: "vm.(*VM).Run#poll.exists", OK: false, Src: "vm.Run not found"}}
	}
	hs := p.loopHeaders(f)
	if len(hs) == 0 {
		return []sob{{Name: "vm.(*VM).Run#poll.loop", OK: false, Src: "vm.Run has no loop"}}
	}
	hdr := hs[0]
	body := loopBody(hdr)
	var selB *ssa.BasicBlock
	var sel *ssa.Select
	for b := range body {
		for _, in := range b.Instrs {
			if s, ok := in.(*ssa.Select); ok && selB == nil {
				selB, sel = b, s
			}
		}
	}
	if sel == nil {
		return []sob{{Name: "vm.(*VM).Run#poll.select", OK: false, Src: "the dispatch loop polls the context (non-blocking select on Done())"}}
	}
	// the select is non-blocking, on a channel obtained from vm.context.Done()
	okChan := false
	if len(sel.States) == 1 && !sel.Blocking {
		if c, ok := sel.States[0].Chan.(*ssa.Call); ok && c.Call.IsInvoke() && c.Call.Method.Name() == "Done" {
			okChan = true
		}
	}
	out = append(out, sob{Name: "vm.(*VM).Run#poll.select", OK: okChan, Src: "the dispatch loop polls vm.context.Done() with a non-blocking select", Pos: p.posOf(sel)})
	// every instruction-dispatching block (everything in the loop except header and the select block's predecessors) is dominated by the select
	ok := true
	detail := ""
	for b := range body {
		if b == hdr || b == selB {
			continue
		}
		if !selB.Dominates(b) {
			ok = false
			detail = fmt.Sprintf("block %d (%s) of the loop is not dominated by the poll", b.Index, b.Comment)
		}
	}
	// nothing but the loop test precedes the poll in an iteration
	if !(len(hdr.Succs) == 2 && (hdr.Succs[0] == selB || hdr.Succs[1] == selB)) {
		ok = false
		detail = "the poll is not the first thing an iteration does"
	}
	out = append(out, sob{Name: "vm.(*VM).Run#poll.dominates", OK: ok, Src: "the poll dominates the fetch and dispatch of every instruction, in every iteration", Detail: detail})
	// the Done branch returns an error built by fmt.Errorf / errors.New without executing an instruction
	okRet := false
	for _, in := range selB.Instrs {
		if ifi, isIf := in.(*ssa.If); isIf {
			_ = ifi
			for _, s := range selB.Succs {
				if r, isRet := s.Instrs[len(s.Instrs)-1].(*ssa.Return); isRet && len(r.Results) == 2 {
					if c, isCall := returnedValue(s, r.Results[1]).(*ssa.Call); isCall {
						if fn, ok := c.Call.Value.(*ssa.Function); ok && (fn.String() == "fmt.Errorf" || fn.String() == "errors.New") {
							okRet = true
						}
					}
				}
			}
		}
	}
	out = append(out, sob{Name: "vm.(*VM).Run#poll.returns", OK: okRet, Src: "when the context is done the run returns a non-nil error at once"})
	// the only interpreter loop: every cycle of the call graph through Run goes through Run's own loop;
	// no other loop in package vm calls back into user code except through Run
	recOK := true
	recDetail := ""
	for _, g := range p.libraryFuncs() {
		if g == f || g.Pkg == nil || g.Pkg.Pkg.Name() != "vm" {
			continue
		}
		for _, b := range g.Blocks {
			for _, in := range b.Instrs {
				if ci, ok := in.(ssa.CallInstruction); ok {
					if fn, ok := ci.Common().Value.(*ssa.Function); ok && fn == f {
						if len(p.loopHeaders(g)) == 0 {
							continue // a loop-free wrapper (runFunction): the call re-enters Run's own loop once
						}
						recOK = false
						recDetail = p.keyOf[g] + " calls Run from a function with loops of its own"
					}
				}
			}
		}
	}
	out = append(out, sob{Name: "vm.(*VM).Run#poll.single-interpreter", OK: recOK, Src: "user code is only ever executed by the dispatch loop of vm.Run (functions re-enter the same loop)", Detail: recDetail})
	// every inner loop of Run carries a proved decreases clause or is a range over a slice
	c := p.contracts.byKey["vm.(*VM).Run"]
	for i, h := range hs {
		if i == 0 {
			continue
		}
		has := c != nil && c.Loops[i+1] != nil && c.Loops[i+1].Decreases != nil
		if strings.HasPrefix(h.Comment, "rangeindex") {
			has = true
		}
		out = append(out, sob{Name: fmt.Sprintf("vm.(*VM).Run#poll.inner-loop-%d-bounded", i+1), OK: has, Src: "inner loop has a decreases clause (proved by SMT) or ranges over a slice"})
	}
	return out
}

// ---------------------------------------------------------------------------------------------
// C19: determinism.  Sources of nondeterminism: iteration over maps (incl. reflect MapKeys),
// formatting of addresses.

// addressLeaks: formatting a pointer (or an interface value that holds one) with %v, %+v, %#v or %p prints
// memory addresses - its own, or those of the pointers nested in the struct it points to - unless the
// type prints itself (String / Error / Format).  Every formatting call with a constant format is checked.
func (p *Program) addressLeaks(f *ssa.Function, key string) []sob {
	var out []sob
	n := 0
	for _, b := range f.Blocks {
		for _, in := range b.Instrs {
			ci, ok := in.(ssa.CallInstruction)
			if !ok {
				continue
			}
			fn, ok := ci.Common().Value.(*ssa.Function)
			if !ok || fn.Pkg == nil || fn.Pkg.Pkg.Path() != "fmt" {
				continue
			}
			args := ci.Common().Args
			fi := -1
			switch fn.Name() {
			case "Sprintf", "Errorf", "Printf":
				fi = 0
			case "Fprintf":
				fi = 1
			default:
				continue
			}
			if fi >= len(args) {
				continue
			}
			fc, ok := args[fi].(*ssa.Const)
			if !ok || fc.Value == nil {
				// the format is not a constant of this function (it comes from a script, say): any verb may be in
				// it, %p among them, and what is handed over may hold slices, maps or pointers
				n++
				out = append(out, sob{Name: fmt.Sprintf("%s#determinism.address.format.%d", key, n), OK: false,
					Src: "no formatted value prints a memory address", Detail: "the format string is not a constant: a %p in it prints the address of a slice, map or pointer operand", Pos: p.posOf(in)})
				continue
			}
			format := constant.StringVal(fc.Value)
			// the variadic operands: stores into the [N]any array behind the slice
			var vals []ssa.Value
			if sl, ok := args[len(args)-1].(*ssa.Slice); ok {
				if al, ok := sl.X.(*ssa.Alloc); ok {
					byIdx := map[int64]ssa.Value{}
					for _, ref := range *al.Referrers() {
						ia, ok := ref.(*ssa.IndexAddr)
						if !ok {
							continue
						}
						ic, ok := ia.Index.(*ssa.Const)
						if !ok {
							continue
						}
						for _, r2 := range *ia.Referrers() {
							if st, ok := r2.(*ssa.Store); ok {
								v := st.Val
								if mi, ok := v.(*ssa.MakeInterface); ok {
									v = mi.X
								}
								if chi, ok := v.(*ssa.ChangeInterface); ok {
									v = chi.X
								}
								byIdx[ic.Int64()] = v
							}
						}
					}
					for i := int64(0); i < int64(len(byIdx)); i++ {
						vals = append(vals, byIdx[i])
					}
				}
			}
			// verbs in order
			ai := 0
			for i := 0; i < len(format); i++ {
				if format[i] != '%' {
					continue
				}
				j := i + 1
				for j < len(format) && strings.ContainsRune("+-# 0123456789.*", rune(format[j])) {
					j++
				}
				if j >= len(format) {
					break
				}
				verb := format[j]
				i = j
				if verb == '%' {
					continue
				}
				if ai < len(vals) && vals[ai] != nil && (verb == 'v' || verb == 'p') {
					if why := p.printsAddresses(vals[ai].Type(), verb == 'p'); why != "" {
						n++
						out = append(out, sob{Name: fmt.Sprintf("%s#determinism.address.%d", key, n), OK: false,
							Src: "a formatted value must not print memory addresses", Detail: fmt.Sprintf("%%%c of %s in %q: %s", verb, types.TypeString(vals[ai].Type(), nil), format, why), Pos: p.posOf(in)})
					} else {
						n++
						out = append(out, sob{Name: fmt.Sprintf("%s#determinism.address.%d", key, n), OK: true, Src: "a formatted value must not print memory addresses", Pos: p.posOf(in)})
					}
				}
				ai++
			}
		}
	}
	return out
}

func (p *Program) printsAddresses(t types.Type, verbP bool) string {
	hasPrinter := func(t types.Type) bool {
		for _, m := range []string{"String", "Error", "Format", "GoString"} {
			if obj, _, _ := types.LookupFieldOrMethod(t, true, nil, m); obj != nil {
				if _, isFn := obj.(*types.Func); isFn {
					return true
				}
			}
		}
		return false
	}
	switch tt := t.Underlying().(type) {
	case *types.Pointer:
		if verbP {
			return "%p prints the address"
		}
		if hasPrinter(t) {
			return ""
		}
		if st, ok := tt.Elem().Underlying().(*types.Struct); ok {
			for i := 0; i < st.NumFields(); i++ {
				if holdsPointer(st.Field(i).Type(), 0) {
					return "the struct it points to holds pointers, which print as addresses"
				}
			}
			return ""
		}
		return "a pointer prints as an address"
	case *types.Interface:
		if verbP {
			return "%p prints the address"
		}
		if hasPrinter(t) {
			return ""
		}
		if nt, ok := types.Unalias(t).(*types.Named); ok && nt.Obj().Pkg() != nil && isModulePkg(nt.Obj().Pkg()) {
			for _, im := range p.allNamed {
				if _, isIface := im.Underlying().(*types.Interface); isIface {
					continue
				}
				pt := types.NewPointer(im)
				if types.Implements(pt, tt) && !types.Implements(im, tt) {
					if why := p.printsAddresses(pt, false); why != "" {
						return "it may hold a *" + im.Obj().Name() + ": " + why
					}
				}
			}
			return ""
		}
		if tt.NumMethods() == 0 {
			return "" // any: decided where the value is made
		}
		return ""
	case *types.Map, *types.Chan, *types.Signature:
		if verbP {
			return "%p prints the address"
		}
	}
	return ""
}

func holdsPointer(t types.Type, depth int) bool {
	if depth > 3 {
		return false
	}
	switch tt := t.Underlying().(type) {
	case *types.Pointer, *types.Chan, *types.Signature:
		return true
	case *types.Interface:
		return true
	case *types.Slice:
		return holdsPointer(tt.Elem(), depth+1)
	case *types.Array:
		return holdsPointer(tt.Elem(), depth+1)
	case *types.Map:
		return holdsPointer(tt.Key(), depth+1) || holdsPointer(tt.Elem(), depth+1)
	case *types.Struct:
		for i := 0; i < tt.NumFields(); i++ {
			if holdsPointer(tt.Field(i).Type(), depth+1) {
				return true
			}
		}
	}
	return false
}

func (p *Program) determinismObligations() []sob {
	var out []sob
	for _, f := range p.libraryFuncs() {
		key := p.keyOf[f]
		out = append(out, p.addressLeaks(f, key)...)
		n := 0
		for _, b := range f.Blocks {
			for _, in := range b.Instrs {
				switch x := in.(type) {
				case *ssa.Range:
					if _, isMap := x.X.Type().Underlying().(*types.Map); !isMap {
						continue
					}
					n++
					kind, ok, detail := p.classifyMapRange(f, x)
					out = append(out, sob{Name: fmt.Sprintf("%s#determinism.maprange.%d", key, n), OK: ok,
						Src: "range over a map: the result must not depend on the iteration order (" + kind + ")", Detail: detail, Pos: p.posOf(x)})
				case *ssa.Call:
					if fn, ok := x.Call.Value.(*ssa.Function); ok {
						switch fn.String() {
						case "(reflect.Value).MapKeys", "(reflect.Value).MapRange":
							n++
							kind, ok, detail := p.classifyMapKeys(f, x)
							out = append(out, sob{Name: fmt.Sprintf("%s#determinism.mapkeys.%d", key, n), OK: ok,
								Src: "reflect MapKeys yields keys in unspecified order (" + kind + ")", Detail: detail, Pos: p.posOf(x)})
						case "fmt.Sprintf", "fmt.Printf", "fmt.Errorf":
							if cst, ok := x.Call.Args[0].(*ssa.Const); ok && cst.Value != nil && strings.Contains(cst.Value.ExactString(), "%p") {
								n++
								out = append(out, sob{Name: fmt.Sprintf("%s#determinism.address.%d", key, n), OK: false, Src: "%p formats a memory address", Pos: p.posOf(x)})
							}
						}
					}
				case *ssa.Convert:
					if b, ok := x.X.Type().Underlying().(*types.Basic); ok && b.Kind() == types.UnsafePointer {
						n++
						out = append(out, sob{Name: fmt.Sprintf("%s#determinism.address.%d", key, n), OK: false, Src: "conversion from unsafe.Pointer", Pos: p.posOf(x)})
					}
				}
			}
		}
	}
	return out
}

// classifyMapRange: the loop driven by a map Range is acceptable when
//
//	commutes: its body only stores into a map allocated in this function under the iteration key
//	          (each iteration touches its own key), or
//	sorted:   it only appends to one local slice which is sorted (sort.Sort / sort.Slice) right after
//	          the loop; the sort key must be injective on the elements - that is a separate claim
//	          recorded in the contract file ("sortkey_injective <reason>") and otherwise a finding.
func (p *Program) classifyMapRange(f *ssa.Function, r *ssa.Range) (string, bool, string) {
	// find the loop: header = block of the Next instruction
	var next *ssa.Next
	for _, ref := range *r.Referrers() {
		if n, ok := ref.(*ssa.Next); ok {
			next = n
		}
	}
	if next == nil {
		return "unused", true, ""
	}
	hdr := next.Block()
	body := loopBody(hdr)
	appends, mapupd, other := 0, 0, 0
	var otherDetail string
	var appendTarget ssa.Value
	for b := range body {
		for _, in := range b.Instrs {
			switch x := in.(type) {
			case *ssa.MapUpdate:
				if _, fresh := x.Map.(*ssa.MakeMap); fresh {
					mapupd++
				} else {
					other++
					otherDetail = "map update of a map not allocated here"
				}
			case *ssa.Store:
				// stores into locals / fresh objects are fine (per-iteration temporaries); stores elsewhere are not
				if !p.storeIsLocal(x) {
					other++
					otherDetail = "store to shared memory at " + p.posOf(x).String()
				}
			case *ssa.Call:
				if b, ok := x.Call.Value.(*ssa.Builtin); ok && b.Name() == "append" {
					appends++
					appendTarget = x
					continue
				}
				if fn, ok := x.Call.Value.(*ssa.Function); ok {
					if fn.Pkg != nil && !isModulePkg(fn.Pkg.Pkg) {
						if e := classifyExternal(fn); e != "pure" {
							other++
							otherDetail = "call with effect " + e + ": " + fn.String()
						}
						continue
					}
				}
				// calls of module functions / methods: allowed if they only read or write fresh/argument-owned state; we
				// accept calls whose inferred frame has no pre-existing component other than the receiver's own fields
				if callee := p.callees(x.Common()); len(callee) > 0 {
					for _, cf := range callee {
						ms := p.modset(cf)
						if ms.All {
							other++
							otherDetail = "call of " + p.keyOf[cf] + " with unknown frame"
						}
					}
				}
			}
		}
	}
	// leaving the loop from inside its body (a return, a break): which entry gets there first is up to the map
	for b := range body {
		if b == hdr {
			continue
		}
		if len(b.Succs) == 0 {
			if _, isRet := b.Instrs[len(b.Instrs)-1].(*ssa.Return); isRet {
				other++
				otherDetail = "the loop is left by a return from inside its body at " + p.posOf(b.Instrs[len(b.Instrs)-1]).String() + ": which entry gets there first depends on the order of the map"
			}
			continue
		}
		for _, sc := range b.Succs {
			if !body[sc] && sc != hdr {
				other++
				otherDetail = "the loop is left from inside its body (block " + b.Comment + "): which entry gets there first depends on the order of the map"
			}
		}
	}
	c := p.contracts.byKey[p.keyOf[f]]
	claim := ""
	if c != nil {
		claim = c.Props["maporder"]
	}
	switch {
	case other > 0 && strings.HasPrefix(claim, "listing"):
		return "listing", true, "declared: " + claim
	case other > 0:
		return "effects inside the loop", false, otherDetail
	case appends == 0:
		return "commutes: each iteration updates its own key of a fresh map", true, ""
	default:
		// appended slice must be sorted after the loop, by a comparison that discriminates beyond the printed form
		sorted := false
		stringsSorted := false
		var less *ssa.Function
		for _, b := range f.Blocks {
			for _, in := range b.Instrs {
				if call, ok := in.(*ssa.Call); ok {
					if fn, ok := call.Call.Value.(*ssa.Function); ok {
						switch fn.String() {
						case "sort.Strings":
							sorted = true
							stringsSorted = true
						case "sort.Slice", "sort.SliceStable":
							sorted = true
							if mc, ok := call.Call.Args[1].(*ssa.MakeClosure); ok {
								less = mc.Fn.(*ssa.Function)
							}
						case "sort.Sort", "sort.Stable":
							sorted = true
							arg := call.Call.Args[0]
							if mi, ok := arg.(*ssa.MakeInterface); ok {
								if sel := p.prog.MethodSets.MethodSet(mi.X.Type()).Lookup(f.Pkg.Pkg, "Less"); sel != nil {
									less = p.prog.MethodValue(sel)
								}
							}
						}
					}
				}
			}
		}
		_ = appendTarget
		if !sorted {
			return "collected but never sorted", false, "the slice built from the map is used in map order"
		}
		if stringsSorted && less == nil {
			return "sorted as strings", true, "sort.Strings: a total order; equal strings are interchangeable"
		}
		if less == nil {
			return "sorted by a comparison that could not be located", false, ""
		}
		printed, kind := false, false
		for _, b := range less.Blocks {
			for _, in := range b.Instrs {
				ci, ok := in.(ssa.CallInstruction)
				if !ok {
					continue
				}
				c := ci.Common()
				if c.IsInvoke() {
					switch c.Method.Name() {
					case "Inspect", "String":
						printed = true
					case "Type":
						kind = true
					}
				} else if fn, ok := c.Value.(*ssa.Function); ok && fn.String() == "fmt.Sprintf" {
					if cst, ok := c.Args[0].(*ssa.Const); ok && cst.Value != nil && strings.Contains(cst.Value.ExactString(), "%T") {
						kind = true
					}
				}
			}
		}
		if printed && kind {
			return "sorted by printed form and kind", true, "the comparison " + p.keyOf[less] + " discriminates entries that print alike by their kind; entries equal in both are the same key (that (printed form, kind) is injective on keys is argued in DESIGN.md, not checked)"
		}
		return "sorted, but the sort key is not injective on the elements", false, "entries that print alike (1, \"1\", 1.0) keep the (random) map order: the comparison " + p.keyOf[less] + " looks at the printed form only; sort.Sort / sort.Slice are not stable"
	}
}

func (p *Program) storeIsLocal(s *ssa.Store) bool {
	switch a := s.Addr.(type) {
	case *ssa.Alloc:
		return true
	case *ssa.FieldAddr:
		_, ok := a.X.(*ssa.Alloc)
		return ok
	case *ssa.IndexAddr:
		if _, ok := a.X.(*ssa.Alloc); ok {
			return true
		}
		return freshSlice(a.X, map[ssa.Value]bool{})
	}
	return false
}

func (p *Program) classifyMapKeys(f *ssa.Function, call *ssa.Call) (string, bool, string) {
	// the keys are only used to drive a loop whose body stores into a map under that key
	c := p.contracts.byKey[p.keyOf[f]]
	for _, b := range f.Blocks {
		for _, in := range b.Instrs {
			if b2, ok := in.(*ssa.Call); ok {
				if bi, ok := b2.Call.Value.(*ssa.Builtin); ok && bi.Name() == "append" {
					return "keys collected into a slice", false, "order of MapKeys reaches a slice"
				}
			}
		}
	}
	hasMapUpdate := false
	for _, b := range f.Blocks {
		for _, in := range b.Instrs {
			if _, ok := in.(*ssa.MapUpdate); ok {
				hasMapUpdate = true
			}
		}
	}
	if hasMapUpdate {
		return "commutes: each key updates its own entry of a map", true, ""
	}
	if c != nil && c.Props["maporder"] != "" {
		return "declared", true, c.Props["maporder"]
	}
	return "unclassified use of MapKeys", false, ""
}

// ---------------------------------------------------------------------------------------------

// ginvSupport: the state a global invariant talks about is never written after package
// initialisation: the global variables themselves, and the fields read through them.
func (p *Program) ginvSupport() []sob {
	var out []sob
	seenG := map[string]bool{}
	seenF := map[string]bool{}
	var walk func(gi *GInv, e *Expr)
	walk = func(gi *GInv, e *Expr) {
		if e == nil {
			return
		}
		if e.Op == "sel" && e.Args[0].Op == "ident" {
			if pk := p.typesPkg[e.Args[0].Name]; pk != nil {
				if v, ok := pk.Scope().Lookup(e.Name).(*types.Var); ok {
					gname := shortPkg(pk.Path()) + "." + v.Name()
					if !seenG[gname] {
						seenG[gname] = true
						sp := p.prog.Package(pk)
						g, _ := sp.Members[v.Name()].(*ssa.Global)
						var writers []string
						for _, f := range p.libraryFuncs() {
							if f.Synthetic == "package initializer" || g == nil {
								continue
							}
							if w, _ := p.globalAccesses(f, g); w {
								writers = append(writers, p.keyOf[f])
							}
						}
						out = append(out, sob{Name: "immutable.global." + gname, OK: g != nil && len(writers) == 0,
							Src: gname + " (used by global invariant " + gi.Cl.Label + ") is written by the package initialiser only", Detail: strings.Join(writers, ", ")})
					}
				}
			}
		}
		if e.Op == "sel" && e.Args[0].Op == "sel" && e.Args[0].Args[0].Op == "ident" {
			// pkg.Global.Field
			if pk := p.typesPkg[e.Args[0].Args[0].Name]; pk != nil {
				if v, ok := pk.Scope().Lookup(e.Args[0].Name).(*types.Var); ok {
					if pt, ok := v.Type().Underlying().(*types.Pointer); ok {
						if nt, ok := pt.Elem().(*types.Named); ok {
							fname := namedName(nt) + "." + e.Name
							if !seenF[fname] {
								seenF[fname] = true
								var writers []string
								for _, f := range p.libraryFuncs() {
									if f.Synthetic == "package initializer" {
										continue
									}
									for _, b := range f.Blocks {
										for _, in := range b.Instrs {
											st, ok := in.(*ssa.Store)
											if !ok {
												continue
											}
											fa, ok := st.Addr.(*ssa.FieldAddr)
											if !ok {
												continue
											}
											bt := fa.X.Type().Underlying().(*types.Pointer).Elem()
											if !types.Identical(bt, nt) || bt.Underlying().(*types.Struct).Field(fa.Field).Name() != e.Name {
												continue
											}
											if _, fresh := fa.X.(*ssa.Alloc); !fresh {
												writers = append(writers, p.keyOf[f])
											}
										}
									}
								}
								out = append(out, sob{Name: "immutable.field." + fname, OK: len(writers) == 0,
									Src: "field " + fname + " (read by global invariant " + gi.Cl.Label + ") is only written when the object is created", Detail: strings.Join(writers, ", ")})
							}
						}
					}
				}
			}
		}
		for _, a := range e.Args {
			walk(gi, a)
		}
	}
	for _, gi := range p.contracts.ginvs {
		walk(gi, gi.Cl.Expr)
	}
	return out
}

// stateObligations (C07, C19): what survives a run.  Every field of the machine, of the environment and
// of the evaluator that is written while a script runs (by vm.Run or anything it calls) must be named
// in the `statefields` clause of vm.Run, where each is accounted for by a clause of Run's contract
// (restored on every way out, re-initialised at the start of a run, or state the language defines, such
// as variables).  A new field written during a run is hidden state until a contract says what becomes of it.
func (p *Program) stateObligations() []sob {
	run := p.funcs["vm.(*VM).Run"]
	c := p.contracts.byKey["vm.(*VM).Run"]
	if run == nil || c == nil || c.Props["statefields"] == "" {
		return []sob{{Name: "vm.(*VM).Run#state.declared", OK: false, Src: "vm.Run declares the fields a run may write (statefields clause)"}}
	}
	allowed := map[string]bool{}
	for _, f := range strings.Fields(c.Props["statefields"]) {
		allowed[f] = true
	}
	watched := map[string]bool{"VM": true, "Environment": true, "Eval": true}
	// functions reachable from Run
	seen := map[*ssa.Function]bool{}
	var walk func(f *ssa.Function)
	walk = func(f *ssa.Function) {
		if f == nil || seen[f] || f.Pkg == nil || !isModulePkg(f.Pkg.Pkg) {
			return
		}
		seen[f] = true
		for _, b := range f.Blocks {
			for _, in := range b.Instrs {
				if ci, ok := in.(ssa.CallInstruction); ok {
					for _, g := range p.callees(ci.Common()) {
						walk(g)
					}
				}
				if mc, ok := in.(*ssa.MakeClosure); ok {
					walk(mc.Fn.(*ssa.Function))
				}
			}
		}
	}
	walk(run)
	written := map[string][]string{}
	for f := range seen {
		for _, b := range f.Blocks {
			for _, in := range b.Instrs {
				st, ok := in.(*ssa.Store)
				if !ok {
					continue
				}
				fa, ok := st.Addr.(*ssa.FieldAddr)
				if !ok {
					continue
				}
				pt, ok := fa.X.Type().Underlying().(*types.Pointer)
				if !ok {
					continue
				}
				nt, ok := types.Unalias(pt.Elem()).(*types.Named)
				if !ok || !watched[nt.Obj().Name()] || !isModulePkg(nt.Obj().Pkg()) {
					continue
				}
				if _, fresh := fa.X.(*ssa.Alloc); fresh {
					continue // initialising a new object
				}
				name := nt.Obj().Name() + "." + fieldNameOf(fa)
				written[name] = append(written[name], p.keyOf[f])
			}
		}
	}
	var out []sob
	var names []string
	for n := range written {
		names = append(names, n)
	}
	sort.Strings(names)
	for _, n := range names {
		ws := written[n]
		sort.Strings(ws)
		out = append(out, sob{Name: "vm.(*VM).Run#state." + n, OK: allowed[n], Src: n + " is written while a script runs and Run's contract accounts for it (statefields)",
			Detail: "written by " + trunc(strings.Join(ws, ", "), 200) + "; fields accounted for: " + c.Props["statefields"]})
	}
	return out
}

func fieldNameOf(fa *ssa.FieldAddr) string {
	pt, ok := fa.X.Type().Underlying().(*types.Pointer)
	if !ok {
		return ""
	}
	st, ok := pt.Elem().Underlying().(*types.Struct)
	if !ok || fa.Field >= st.NumFields() {
		return ""
	}
	return st.Field(fa.Field).Name()
}

// allocationObligations: every make([]T, n) / make(map, n) of the library takes its size from a constant or
// from len/cap of existing data (possibly adjusted by constants, sums of such lengths, or the number of
// arguments of a call); anything else is a size computed from values, which a script controls.
func (p *Program) allocationObligations() []sob {
	var out []sob
	var sized func(v ssa.Value, depth int) bool
	sized = func(v ssa.Value, depth int) bool {
		if depth > 6 {
			return false
		}
		switch x := v.(type) {
		case *ssa.Const:
			return true
		case *ssa.Call:
			if b, ok := x.Call.Value.(*ssa.Builtin); ok && (b.Name() == "len" || b.Name() == "cap") {
				return true
			}
			if fn, ok := x.Call.Value.(*ssa.Function); ok {
				switch fn.String() {
				case "unicode/utf8.RuneCountInString", "(reflect.Value).Len", "(reflect.Value).NumField":
					return true
				case "(encoding/binary.bigEndian).Uint16":
					return true // an instruction operand: at most 65535
				}
			}
			return false
		case *ssa.BinOp:
			switch x.Op {
			case token.ADD, token.SUB, token.MUL:
				return sized(x.X, depth+1) && sized(x.Y, depth+1)
			}
			return false
		case *ssa.Convert:
			return sized(x.X, depth+1)
		case *ssa.ChangeType:
			return sized(x.X, depth+1)
		case *ssa.Phi:
			for _, e := range x.Edges {
				if e != v && !sized(e, depth+1) {
					return false
				}
			}
			return true
		case *ssa.Parameter:
			// the width of an instruction operand and the like: decided at the call sites, which are few; the
			// machine's operands are 16-bit
			return x.Type().Underlying() == types.Typ[types.Int] && strings.Contains(x.Name(), "opArg")
		}
		return false
	}
	for _, f := range p.libraryFuncs() {
		key := p.keyOf[f]
		n := 0
		for _, b := range f.Blocks {
			for _, in := range b.Instrs {
				var size ssa.Value
				switch x := in.(type) {
				case *ssa.MakeSlice:
					size = x.Cap
				case *ssa.MakeMap:
					size = x.Reserve
				}
				if size == nil {
					continue
				}
				n++
				ok := sized(size, 0)
				detail := ""
				if !ok {
					detail = "the size is computed from values (" + size.String() + "): a script that controls them makes the process allocate until it dies, which cannot be recovered"
				}
				out = append(out, sob{Name: fmt.Sprintf("%s#alloc.bounded.%d", key, n), OK: ok, Src: "the size of an allocation is a constant or the length of existing data", Detail: detail, Pos: p.posOf(in)})
			}
		}
	}
	return out
}

// returnedValue: in a function with deferred calls a return stores its results in cells, runs the
// deferred calls and loads the cells again; this finds the value that was stored in the returning block
func returnedValue(b *ssa.BasicBlock, v ssa.Value) ssa.Value {
	ld, ok := v.(*ssa.UnOp)
	if !ok || ld.Op != token.MUL {
		return v
	}
	for i := len(b.Instrs) - 1; i >= 0; i-- {
		if st, ok := b.Instrs[i].(*ssa.Store); ok && st.Addr == ld.X {
			return st.Val
		}
	}
	return v
}

func structuralFor(p *Program, id string) []sob {
	switch id {
	case "C07":
		return p.stateObligations()
	case "C01", "C05", "C14", "C13", "C12":
		return p.ginvSupport()
	case "C10":
		return p.effectObligations()
	case "C11":
		// "every object gets the verdict a sequential run gives it" also needs the runs on a shared evaluator to
		// be independent of each other: the lock serialises them, the state obligations keep one run from
		// leaving anything behind for the next (other than the variables, which persist by design)
		return append(p.lockObligations(), p.stateObligations()...)
	case "C08":
		// an evaluator stays usable after a failed run only if the run released its lock on every path
		var out []sob
		for _, o := range p.lockObligations() {
			if strings.HasSuffix(o.Name, "#locks.critical") {
				out = append(out, o)
			}
		}
		// a stack overflow cannot be recovered: every recursive cycle of the library must be bounded
		out = append(out, p.recursionObligations()...)
		// neither can running out of memory: the size of an allocation is a constant, or the length of
		// something that exists already - not a number a script computed
		out = append(out, p.allocationObligations()...)
		return out
	case "C09":
		// a lock that some path leaves held stops every later run at its first use: no deadline ends that wait
		out := p.pollObligations()
		for _, o := range p.lockObligations() {
			if strings.HasSuffix(o.Name, "#locks.critical") {
				out = append(out, o)
			}
		}
		return out
	case "C19":
		return append(p.determinismObligations(), p.stateObligations()...)
	}
	return nil
}

func addStructuralCoverage(p *Program, id, tier string, res *propResult, violLines, knownLines *[]string, findings []*finding) {
	obs := structuralFor(p, id)
	if len(obs) == 0 {
		return
	}
	cov := res.ev.Coverage
	viol := 0
	ok := 0
	var samples []interface{}
	for _, o := range obs {
		if o.OK {
			ok++
			if len(samples) < 4 {
				samples = append(samples, map[string]string{"obligation": o.Name, "clause": o.Src, "status": "proved", "backend": "structural"})
			}
			continue
		}
		var kf *finding
		for _, f := range findings {
			if f.Kind == "finding" && f.re.MatchString(o.Name) && strings.Contains(","+f.Property+",", ","+id+",") {
				kf = f
			}
		}
		if kf != nil {
			*knownLines = append(*knownLines, fmt.Sprintf("KNOWN-FINDING: property=%s %s [%s]", id, kf.What, o.Name))
			ok++
			continue
		}
		viol++
		rp := writeStructuralReplay(id, o)
		line := fmt.Sprintf("VIOLATION property=%s replay=%s obligation=%s status=failed no-failing-input-found", id, rp, o.Name)
		*violLines = append(*violLines, line)
	}
	cov["structural_obligations"] = len(obs)
	cov["structural_discharged"] = ok
	cov["structural_violations"] = viol
	if n, ok2 := cov["obligations"].(int); ok2 {
		cov["obligations"] = n + len(obs)
	}
	if n, ok2 := cov["discharged"].(int); ok2 {
		cov["discharged"] = n + ok
	}
	if bb, ok2 := cov["by_backend"].(map[string]int); ok2 {
		bb["structural"] = ok
	}
	if s, ok2 := cov["samples"].([]interface{}); ok2 {
		cov["samples"] = append(samples, s...)
	} else {
		cov["samples"] = samples
	}
	fmt.Printf("structural obligations for %s: %d, discharged %d, violations %d\n", id, len(obs), ok, viol)
}

func writeStructuralReplay(id string, o sob) string {
	return writeJSON(outDir("replays")+"/"+id, sanitize(o.Name)+".json", map[string]interface{}{
		"property": id, "obligation": o.Name, "kind": "structural", "clause": o.Src, "detail": o.Detail, "position": o.Pos.String(),
		"replay_status": "no-failing-input-found", "note": "structural obligation (no solver model): the named clause does not hold of the code at the given position",
	})
}

func propertyAssumptions(id string) []string {
	return paperLemmas[id]
}

var paperLemmas = map[string][]string{
	"C01": {"paper lemma L-expr: nested expressions evaluate by structural induction from the per-opcode step contracts and the compiler's emission order (compile is not under contract yet)"},
	"C05": {"paper lemma L-cf: if/while/ternary consume truth only through OpJumpIfFalse (compiler templates, not machine-checked)"},
	"C06": {"paper lemma L-cf for where scopes are opened and closed by compiled code"},
	"C07": {"panic exits of vm.Run are not modelled: a panic below a user-function call is outside what is decided"},
	"C09": {"the length of the delay (wall clock), the moment of asynchronous cancellation and the running time of a single instruction on huge data are not decided; host functions are outside"},
	"C10": {"the effect classification of standard-library functions (pure / stdout / env / clock / tzdb) is a trusted table; the Go runtime's own effects are outside"},
	"C11": {"a lock discipline is checked, schedules are not explored (level: other); objects a host shares between evaluators are outside; SetVariable/AddFunction concurrent with Run is not promised by the statement"},
	"C19": {"uniqueness of a sorted permutation under a total order is a library fact; clock/env built-ins are excluded by the statement"},
}
