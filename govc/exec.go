package main

// Symbolic execution of one SSA function over its loop-cut, acyclic CFG.

import (
	"fmt"
	"go/ast"
	"go/token"
	"go/types"
	"hash/fnv"
	"os"
	"strings"

	"golang.org/x/tools/go/ssa"
)

func (vc *VC) pos(p token.Pos) { vc.curPos = p }

// run generates all obligations of the function.
func (vc *VC) run() (err error) {
	defer func() {
		if r := recover(); r != nil {
			if ee, ok := r.(evalError); ok {
				err = fmt.Errorf("%s: contract error: %s", vc.key, ee.msg)
				return
			}
			if s, ok := r.(unsupportedErr); ok {
				err = fmt.Errorf("%s: outside the supported subset: %s", vc.key, string(s))
				return
			}
			panic(r)
		}
	}()
	fn := vc.fn
	if len(fn.Blocks) == 0 {
		return fmt.Errorf("%s: no body", vc.key)
	}
	vc.compDecl("$alloc", SInt)
	h := &Heap{m: map[string]string{}}
	vc.entryHeap = h.clone()
	// parameters
	for _, p := range fn.Params {
		s := vc.u.sortOf(p.Type())
		n := "p_" + sanitize(p.Name())
		vc.emit(fmt.Sprintf("(declare-const %s %s)", n, s))
		t := mk(n, s).withType(p.Type())
		vc.vals[p] = t
		vc.params[p.Name()] = t
		vc.assume("true", vc.allocated(h, t))
	}
	for _, fv := range fn.FreeVars {
		s := vc.u.sortOf(fv.Type())
		n := "fv_" + sanitize(fv.Name())
		vc.emit(fmt.Sprintf("(declare-const %s %s)", n, s))
		t := mk(n, s).withType(fv.Type())
		vc.vals[fv] = t
		vc.assume("true", vc.allocated(h, t))
		vc.assume("true", not(eq(n, "0")))
	}
	// receiver is non-nil by default
	if fn.Signature.Recv() != nil && len(fn.Params) > 0 {
		if _, ok := fn.Params[0].Type().Underlying().(*types.Pointer); ok {
			vc.assume("true", not(eq(vc.vals[fn.Params[0]].S, "0")))
		}
	}
	c := vc.contract
	env := vc.entryEnv()
	vc.panicOK = "true"
	if c != nil {
		for i, cl := range c.Requires {
			s, err := env.evalAssume(cl.Expr)
			if err != nil {
				return fmt.Errorf("%s: requires %s: %v", vc.key, c.clauseName(cl, i), err)
			}
			vc.assume("true", s)
		}
		for _, cl := range c.Assumes {
			s, err := env.evalAssume(cl.Expr)
			if err != nil {
				return fmt.Errorf("%s: assumes %s: %v", vc.key, cl.Label, err)
			}
			vc.assume("true", s)
			vc.assumptions["assumed in "+vc.key+" ("+cl.Label+"): "+cl.Src] = true
		}
		switch c.PanicsMode {
		case "never":
			vc.panicOK = "false"
		case "when":
			s, err := env.evalAssume(c.PanicsWhen.Expr)
			if err != nil {
				return fmt.Errorf("%s: panics when: %v", vc.key, err)
			}
			vc.panicOK = vc.define("panicOK", SBool, s)
		case "maybe":
			vc.panicOK = "true"
		default:
			if vc.mode == "safety" {
				vc.panicOK = "false"
			}
		}
	} else if vc.mode == "safety" {
		vc.panicOK = "false"
	}
	isInit := fn.Synthetic == "package initializer"
	for _, gi := range vc.prog.contracts.ginvs {
		if isInit {
			continue // initialisers establish the invariants; they run before anything else of their package
		}
		s, err := env.evalAssume(gi.Cl.Expr)
		if err != nil {
			continue // mentions names not visible from this package
		}
		vc.assume("true", s)
		vc.assumptions["global invariant "+gi.Pkg+"."+gi.Cl.Label+" (proved at the end of the package initialiser; its state is immutable afterwards)"] = true
	}
	for _, ax := range vc.prog.contracts.axioms {
		if !vc.axiomApplies(ax) {
			continue
		}
		s, err := env.evalAssume(ax.Expr)
		if err != nil {
			continue // axiom mentions names not visible from this package
		}
		vc.assume("true", s)
		vc.assumptions["axiom:"+ax.Label] = true
	}

	// loops
	hs := vc.prog.loopHeaders(fn)
	for i, hb := range hs {
		vc.loopHdr[hb] = i + 1
		vc.loopBody[hb] = loopBody(hb)
	}
	order := vc.blockOrder()
	for _, b := range order {
		vc.curBlock = b
		vc.execBlock(b, h)
	}
	if fn.Recover != nil && len(vc.recoverEdges) > 0 {
		// the recover block: entered from every panic path on which a deferred call recovered
		rb := fn.Recover
		var rs []string
		for _, e := range vc.recoverEdges {
			rs = append(rs, e.reach)
		}
		hr := vc.recoverEdges[len(vc.recoverEdges)-1].h.clone()
		for i := len(vc.recoverEdges) - 2; i >= 0; i-- {
			vc.mergeGuarded(hr, vc.recoverEdges[i].h, vc.recoverEdges[i].reach)
		}
		reach := vc.define("reach_recover", SBool, or(rs...))
		vc.curBlock = rb
		vc.reach[rb] = reach
		vc.panicking = "false"
		for _, in := range rb.Instrs {
			reach = vc.execInstr(rb, in, hr, reach)
		}
		vc.panicking = ""
	}
	return nil
}

type unsupportedErr string

func (vc *VC) axiomApplies(ax *Clause) bool { return true }

func (vc *VC) entryEnv() *Env {
	env := &Env{vc: vc, vars: map[string]Term{}, cur: vc.entryHeap, old: vc.entryHeap, pkg: vc.fn.Pkg.Pkg}
	vc.bindParams(env, vc.contract, vc.fn, nil)
	// a closure's captured variables, by their source names: a variable captured by reference is the
	// value its cell holds at entry (enough for preconditions, which is what closures get)
	for _, fv := range vc.fn.FreeVars {
		t, ok := vc.vals[fv]
		if !ok {
			continue
		}
		if _, taken := env.vars[fv.Name()]; taken {
			continue
		}
		if _, isPtr := fv.Type().Underlying().(*types.Pointer); isPtr {
			t.T = fv.Type()
			env.vars[fv.Name()] = vc.loadPtr(vc.entryHeap, t, "true", false)
		} else {
			env.vars[fv.Name()] = t
		}
	}
	return env
}

// bind parameter names (contract names win over source names)
func (vc *VC) bindParams(env *Env, c *Contract, fn *ssa.Function, args []Term) {
	names := make([]string, len(fn.Params))
	for i, p := range fn.Params {
		names[i] = p.Name()
	}
	if c != nil {
		off := 0
		if fn.Signature.Recv() != nil {
			if c.RecvName != "" {
				names[0] = c.RecvName
			}
			off = 1
		}
		for i, n := range c.ParamNames {
			if off+i < len(names) && n != "_" && n != "" {
				names[off+i] = n
			}
		}
	}
	for i, p := range fn.Params {
		if args != nil {
			t := args[i]
			t.T = p.Type()
			env.vars[names[i]] = t
		} else {
			env.vars[names[i]] = vc.vals[p]
		}
	}
}

// reverse postorder ignoring back edges
func (vc *VC) blockOrder() []*ssa.BasicBlock {
	fn := vc.fn
	seen := map[*ssa.BasicBlock]bool{}
	var post []*ssa.BasicBlock
	var dfs func(b *ssa.BasicBlock)
	dfs = func(b *ssa.BasicBlock) {
		seen[b] = true
		for _, s := range b.Succs {
			if s.Dominates(b) { // back edge
				continue
			}
			if !seen[s] {
				dfs(s)
			}
		}
		post = append(post, b)
	}
	dfs(fn.Blocks[0])
	for i, j := 0, len(post)-1; i < j; i, j = i+1, j-1 {
		post[i], post[j] = post[j], post[i]
	}
	return post
}

func (vc *VC) mergeHeaps(b *ssa.BasicBlock, preds []*ssa.BasicBlock) *Heap {
	if len(preds) == 1 {
		return vc.heapOut[preds[0]].clone()
	}
	out := &Heap{m: map[string]string{}}
	ep := vc.heapOut[preds[0]].epoch
	same := true
	comps := map[string]bool{}
	for _, p := range preds {
		hp := vc.heapOut[p]
		if hp.epoch != ep {
			same = false
		}
		for c := range hp.m {
			comps[c] = true
		}
	}
	if same {
		out.epoch = ep
	} else {
		vc.nver++
		out.epoch = 1000 + vc.nver
		// the merged state starts a new epoch: every component known so far is merged, also those no
		// predecessor has touched yet (their epoch-initial versions differ from predecessor to predecessor)
		for c := range vc.compSort {
			comps[c] = true
		}
	}
	for _, c := range sortedKeys(comps) {
		vers := make([]string, len(preds))
		allSame := true
		for i, p := range preds {
			vers[i] = vc.get(vc.heapOut[p], c)
			if vers[i] != vers[0] {
				allSame = false
			}
		}
		if allSame && same {
			out.m[c] = vers[0]
			continue
		}
		t := vers[len(preds)-1]
		for i := len(preds) - 2; i >= 0; i-- {
			t = ite(vc.edge[[2]*ssa.BasicBlock{preds[i], b}], vers[i], t)
		}
		out.m[c] = vc.define(c, vc.compSort[c], t)
	}
	if !same {
		// the merged state starts a new epoch: its watermark is a fresh constant above the merged one
		n := fmt.Sprintf("$alloc@e%d", out.epoch)
		vc.u.declare(n, fmt.Sprintf("(declare-const %s Int)", n))
		if prev, ok := out.m["$alloc"]; ok {
			vc.emit(fmt.Sprintf("(assert (>= %s %s))", n, prev))
		}
		out.m["$alloc"] = n
	}
	return out
}

// a loop latch with many predecessors (the end of an interpreter-style dispatch) is executed once
// per predecessor instead of once on the merged state: the obligations of each arm then see only
// that arm's path.
func (vc *VC) isDupLatch(b *ssa.BasicBlock) bool {
	if len(b.Preds) < 4 || len(b.Instrs) > 12 {
		return false
	}
	isLatch := len(b.Succs) == 1 && b.Succs[0].Dominates(b)
	isRet := len(b.Succs) == 0
	if !isLatch && !isRet {
		return false
	}
	for _, p := range b.Preds {
		if b.Dominates(p) {
			return false
		}
	}
	for _, in := range b.Instrs {
		switch in.(type) {
		case *ssa.Phi, *ssa.BinOp, *ssa.Jump, *ssa.DebugRef, *ssa.UnOp, *ssa.Convert, *ssa.Return:
		default:
			return false
		}
	}
	return true
}

func (vc *VC) execDupLatch(b *ssa.BasicBlock) {
	vc.dupRet = 0
	var edges []string
	for pi, p := range b.Preds {
		if _, ok := vc.heapOut[p]; !ok {
			continue
		}
		e := vc.edge[[2]*ssa.BasicBlock{p, b}]
		edges = append(edges, e)
		vc.tagBlock = p
		vc.dupSfx = fmt.Sprintf("@from%d", pi+1)
		h := vc.heapOut[p].clone()
		for _, in := range b.Instrs {
			if phi, ok := in.(*ssa.Phi); ok {
				t := vc.value(phi.Edges[pi])
				t.T = phi.Type()
				vc.vals[phi] = t
			}
		}
		reach := e
		for _, in := range b.Instrs {
			if _, ok := in.(*ssa.Phi); ok {
				continue
			}
			if in.Pos().IsValid() {
				vc.pos(in.Pos())
			}
			reach = vc.execInstr(b, in, h, reach)
		}
		vc.tagBlock = nil
		vc.dupSfx = ""
	}
	vc.reach[b] = or(edges...)
}

func (vc *VC) execBlock(b *ssa.BasicBlock, _ *Heap) {
	if vc.isDupLatch(b) {
		vc.execDupLatch(b)
		return
	}
	var h *Heap
	var reach string
	if b == vc.fn.Blocks[0] {
		h = vc.entryHeap.clone()
		reach = "true"
	} else {
		var preds []*ssa.BasicBlock
		var edges []string
		for _, p := range b.Preds {
			if b.Dominates(p) {
				continue // back edge
			}
			if _, ok := vc.heapOut[p]; !ok {
				continue // unreachable predecessor (e.g. recover block)
			}
			preds = append(preds, p)
			edges = append(edges, vc.edge[[2]*ssa.BasicBlock{p, b}])
		}
		if len(preds) == 0 {
			return
		}
		reach = vc.define(fmt.Sprintf("reach_b%d", b.Index), SBool, or(edges...))
		if vc.blockReach == nil {
			vc.blockReach = map[*ssa.BasicBlock]string{}
		}
		vc.blockReach[b] = reach
		h = vc.mergeHeaps(b, preds)
		// phis
		for _, in := range b.Instrs {
			phi, ok := in.(*ssa.Phi)
			if !ok {
				break
			}
			var t string
			s := vc.u.sortOf(phi.Type())
			first := true
			for i := len(b.Preds) - 1; i >= 0; i-- {
				p := b.Preds[i]
				if b.Dominates(p) {
					continue
				}
				if _, ok := vc.heapOut[p]; !ok {
					continue
				}
				v := vc.value(phi.Edges[i]).S
				if first {
					t = v
					first = false
				} else {
					t = ite(vc.edge[[2]*ssa.BasicBlock{p, b}], v, t)
				}
			}
			vc.vals[phi] = mk(vc.define(phi.Name(), s, t), s).withType(phi.Type())
		}
	}
	vc.reach[b] = reach
	if n, isHdr := vc.loopHdr[b]; isHdr {
		h = vc.loopHead(b, n, h, reach)
	}
	vc.heapIn[b] = h.clone()
	for _, in := range b.Instrs {
		if _, ok := in.(*ssa.Phi); ok {
			continue
		}
		if in.Pos().IsValid() {
			vc.pos(in.Pos())
		}
		reach = vc.execInstr(b, in, h, reach)
	}
	vc.heapOut[b] = h
}

// ---- loops ---------------------------------------------------------------

func (vc *VC) loopSpec(n int) *LoopSpec {
	var ls *LoopSpec
	if vc.contract != nil && vc.contract.Loops != nil {
		ls = vc.contract.Loops[n]
	}
	if ls == nil {
		ls = &LoopSpec{}
	}
	if vc.contract != nil && len(vc.contract.Preserves) > 0 {
		// "preserves" clauses hold between function entry and every loop head as well
		cp := *ls
		cp.Invariants = append(append([]*Clause{}, ls.Invariants...), vc.contract.Preserves...)
		return &cp
	}
	return ls
}

func (vc *VC) loopEnv(hdr *ssa.BasicBlock, at *ssa.BasicBlock, cur *Heap, subst map[*ssa.Phi]Term) *Env {
	env := vc.entryEnv()
	env.cur = cur
	env.old = vc.entryHeap
	if hh, ok := vc.hdrHeap[hdr]; ok {
		env.pre = hh
	}
	env.local = func(name string, pre bool) (Term, bool) {
		if name == "rangeindex" {
			// the hidden index of a range loop without a named index: the last index completed (-1 at first)
			for _, in := range hdr.Instrs {
				phi, ok := in.(*ssa.Phi)
				if !ok {
					break
				}
				if phi.Comment != "rangeindex" {
					continue
				}
				if !pre && subst != nil {
					if t, ok := subst[phi]; ok {
						return t, true
					}
				}
				if hp, ok := vc.hdrPhi[hdr]; ok && (pre || at == hdr || subst == nil) {
					if t, ok := hp[phi]; ok {
						return t, true
					}
				}
				if t, ok := vc.vals[phi]; ok {
					return t, true
				}
			}
			return Term{}, false
		}
		if pre {
			return vc.resolveLocal(name, hdr, vc.hdrHeap[hdr], nil)
		}
		return vc.resolveLocal(name, at, cur, subst)
	}
	env.atLoop = func(k int) *Env {
		for hb, ord := range vc.loopHdr {
			if ord == k {
				hh, ok := vc.hdrHeap[hb]
				if !ok {
					return nil
				}
				e2 := vc.entryEnv()
				e2.cur = hh
				e2.old = vc.entryHeap
				hb2 := hb
				e2.local = func(name string, _ bool) (Term, bool) {
					return vc.resolveLocal(name, hb2, hh, nil)
				}
				return e2
			}
		}
		return nil
	}
	return env
}

func (vc *VC) loopHead(b *ssa.BasicBlock, n int, h *Heap, reach string) *Heap {
	ls := vc.loopSpec(n)
	// invariant on entry: phis have their entry values (already defined by execBlock)
	entryVals := map[*ssa.Phi]Term{}
	for _, in := range b.Instrs {
		if phi, ok := in.(*ssa.Phi); ok {
			entryVals[phi] = vc.vals[phi]
		}
	}
	env := vc.loopEnv(b, b, h, entryVals)
	env.pre = nil
	for i, cl := range ls.Invariants {
		s, err := env.evalGoal(cl.Expr)
		if err != nil {
			if len(cl.Tags) == 0 && !cl.Pinned {
				// an untagged invariant is a proof hint, not a claim: when it no longer fits the code (a local
				// was renamed or retyped) it is dropped, and what depended on it fails by name if it matters
				if vc.droppedInv == nil {
					vc.droppedInv = map[*Clause]bool{}
				}
				vc.droppedInv[cl] = true
				vc.notes = append(vc.notes, fmt.Sprintf("NOTE: %s: loop %d invariant %s no longer fits the code and was dropped (%v)", vc.key, n, vc.contract.clauseName(cl, i), err))
				continue
			}
			panic(evalError{fmt.Sprintf("loop %d invariant %s: %v", n, vc.contract.clauseName(cl, i), err)})
		}
		vc.oblige("invariant", fmt.Sprintf("loop%d.%s.entry", n, vc.contract.clauseName(cl, i)), cl.Tags, reach, s, cl.Src)
	}
	// havoc
	hh := h.clone()
	mods, freshOnly, all := vc.loopMods(b)
	if all {
		vc.havocAll(hh)
	} else {
		a0 := vc.get(h, "$alloc")
		for _, c := range sortedKeys(mods) {
			if c == "$alloc" {
				continue
			}
			if freshOnly[c] {
				// every write in the loop goes to objects allocated inside the loop: the component keeps its
				// version (its part above the allocation watermark at loop entry is unconstrained anyway)
				continue
			}
			vc.havoc(hh, c)
		}
		a1 := vc.fresh("$alloc", SInt)
		vc.emit(fmt.Sprintf("(assert (>= %s %s))", a1, a0))
		hh.m["$alloc"] = a1
		vc.flushWf(hh)
	}
	phis := map[*ssa.Phi]Term{}
	for _, in := range b.Instrs {
		phi, ok := in.(*ssa.Phi)
		if !ok {
			break
		}
		s := vc.u.sortOf(phi.Type())
		name := vc.fresh(phi.Name()+"_"+phi.Comment, s)
		t := mk(name, s).withType(phi.Type())
		vc.vals[phi] = t
		phis[phi] = t
		vc.assume("true", vc.allocated(hh, t))
	}
	vc.hdrHeap[b] = hh.clone()
	vc.hdrPhi[b] = phis
	// automatic invariant: the hidden index of a range loop over a slice, array or string starts at -1 and
	// is only ever incremented below the length: it is never less than -1 (a fact about the SSA form)
	for _, in := range b.Instrs {
		phi, ok := in.(*ssa.Phi)
		if !ok {
			break
		}
		if phi.Comment == "rangeindex" {
			// (and below the largest int: it is -1 or an index that passed the "< length" test)
			vc.assume(reach, and(app(">=", phis[phi].S, "(- 1)"), app("<", phis[phi].S, "9223372036854775807")))
		}
	}
	// automatic invariant: a slice variable that is only ever nil, make()d or appended to in this
	// function has a backing array allocated after function entry (proved on entry and back edges)
	a00 := vc.get(vc.entryHeap, "$alloc")
	for _, in := range b.Instrs {
		phi, ok := in.(*ssa.Phi)
		if !ok {
			break
		}
		if _, isSlice := phi.Type().Underlying().(*types.Slice); isSlice && freshSlice(phi, map[ssa.Value]bool{}) {
			ev := entryVals[phi]
			vc.oblige("invariant", fmt.Sprintf("loop%d.freshslice.%s.entry", n, phi.Comment), vc.safetyTags(), reach, or(eq(ev.S, "(mk-slice 0 0 0 0)"), app(">", app("s.arr", ev.S), a00)), "slice "+phi.Comment+" is nil or allocated in this call")
			vc.assume(reach, or(eq(phis[phi].S, "(mk-slice 0 0 0 0)"), app(">", app("s.arr", phis[phi].S), a00)))
		}
	}
	if vc.contract != nil && vc.contract.HasModifies {
		// the function's frame is an automatic loop invariant (it holds trivially where the loop is
		// entered only if it held so far: proved on entry, assumed at the head, proved on every back edge)
		for _, fg := range vc.frameGoals(vc.contract, h) {
			vc.oblige("frame", fmt.Sprintf("loop%d.frame.%s.entry", n, fg[0]), vc.safetyTags(), reach, fg[1], "modifies clause as loop invariant")
		}
		for _, fg := range vc.frameGoals(vc.contract, hh) {
			vc.assume(reach, fg[1])
		}
	}
	env2 := vc.loopEnv(b, b, hh, nil)
	for i, cl := range ls.Invariants {
		if vc.droppedInv[cl] {
			continue
		}
		s, err := env2.evalAssume(cl.Expr)
		if err != nil {
			panic(evalError{fmt.Sprintf("loop %d invariant %s: %v", n, vc.contract.clauseName(cl, i), err)})
		}
		if os.Getenv("GOVC_TRACEINV") != "" {
			fmt.Fprintf(os.Stderr, "%s loop %d head assumes %s: %s\n", vc.key, n, vc.contract.clauseName(cl, i), s)
		}
		vc.assume(reach, s)
	}
	vc.cover(fmt.Sprintf("loop%d.head", n), reach)
	return hh
}

// backEdge is called when block p jumps back to loop header hdr.
func (vc *VC) backEdge(p, hdr *ssa.BasicBlock, h *Heap, reach string) {
	n := vc.loopHdr[hdr]
	ls := vc.loopSpec(n)
	idx := -1
	for i, q := range hdr.Preds {
		if q == p {
			idx = i
		}
	}
	subst := map[*ssa.Phi]Term{}
	for _, in := range hdr.Instrs {
		if phi, ok := in.(*ssa.Phi); ok {
			subst[phi] = vc.value(phi.Edges[idx])
		}
	}
	env := vc.loopEnv(hdr, p, h, subst)
	sfx := ""
	if vc.dupSfx != "" {
		sfx = vc.dupSfx
	} else if k := vc.counter(fmt.Sprintf("backedge.%d", n)); k > 1 {
		sfx = fmt.Sprintf(".%d", k)
	}
	for i, cl := range ls.Invariants {
		if vc.droppedInv[cl] {
			continue
		}
		s, err := env.evalGoal(cl.Expr)
		if err != nil {
			panic(evalError{fmt.Sprintf("loop %d invariant: %v", n, err)})
		}
		vc.oblige("invariant", fmt.Sprintf("loop%d.%s.preserved%s", n, vc.contract.clauseName(cl, i), sfx), cl.Tags, reach, s, cl.Src)
	}
	a00 := vc.get(vc.entryHeap, "$alloc")
	for _, in := range hdr.Instrs {
		phi, ok := in.(*ssa.Phi)
		if !ok {
			break
		}
		if _, isSlice := phi.Type().Underlying().(*types.Slice); isSlice && freshSlice(phi, map[ssa.Value]bool{}) {
			nv := subst[phi]
			vc.oblige("invariant", fmt.Sprintf("loop%d.freshslice.%s.preserved%s", n, phi.Comment, sfx), vc.safetyTags(), reach, or(eq(nv.S, "(mk-slice 0 0 0 0)"), app(">", app("s.arr", nv.S), a00)), "slice "+phi.Comment+" is nil or allocated in this call")
		}
	}
	if vc.contract != nil && vc.contract.HasModifies {
		for _, fg := range vc.frameGoals(vc.contract, h) {
			vc.oblige("frame", fmt.Sprintf("loop%d.frame.%s.preserved%s", n, fg[0], sfx), vc.safetyTags(), reach, fg[1], "modifies clause as loop invariant")
		}
	}
	for i, cl := range ls.Steps {
		senv := *env
		senv.oldIsPre = true
		s, err := senv.evalGoal(cl.Expr)
		if err != nil {
			panic(evalError{fmt.Sprintf("loop %d step: %v", n, err)})
		}
		o := vc.oblige("step", fmt.Sprintf("loop%d.%s%s", n, vc.contract.clauseName(cl, i), sfx), cl.Tags, reach, s, cl.Src)
		o.Pinned = cl.Pinned
		regEnv := senv
		o.EnvFn = func() *Env { e := regEnv; return &e }
	}
	for _, inh := range ls.Inherits {
		vc.inheritSteps(n, inh, env, reach, sfx)
	}
	if ls.Decreases != nil {
		cur, err := env.evalTerm(ls.Decreases.Expr)
		if err != nil {
			panic(evalError{fmt.Sprintf("loop %d decreases: %v", n, err)})
		}
		pe := *env
		pe.cur = vc.hdrHeap[hdr]
		pe.inPre = true
		pe.local = env.local
		prev, err := (&Env{vc: vc, vars: env.vars, cur: vc.hdrHeap[hdr], old: vc.entryHeap, pkg: env.pkg, local: func(name string, _ bool) (Term, bool) {
			return vc.resolveLocal(name, hdr, vc.hdrHeap[hdr], nil)
		}}).evalTerm(ls.Decreases.Expr)
		if err != nil {
			panic(evalError{fmt.Sprintf("loop %d decreases: %v", n, err)})
		}
		vc.oblige("decreases", fmt.Sprintf("loop%d.decreases%s", n, sfx), ls.Decreases.Tags, reach, and(app("<=", "0", prev.S), app("<", cur.S, prev.S)), ls.Decreases.Src)
	}
}

// components a loop body may modify
func (vc *VC) loopMods(hdr *ssa.BasicBlock) (map[string]bool, map[string]bool, bool) {
	mods := map[string]bool{}
	old := map[string]bool{}
	all := false
	// "fresh" is relative to the loop: only objects allocated inside the body do not exist at its head
	freshScope = vc.loopBody[hdr]
	defer func() { freshScope = nil }()
	for b := range vc.loopBody[hdr] {
		for _, in := range b.Instrs {
			ms, a := vc.prog.instrMods(vc, in)
			for c := range ms.Old {
				mods[c] = true
				old[c] = true
			}
			for c := range ms.Fresh {
				mods[c] = true
			}
			if ms.FreshAll {
				for c := range vc.compSort {
					if c != "$alloc" && !strings.HasPrefix(c, "Gcalls_") && !strings.HasPrefix(c, "Gcnt_") && c != "Gerr_n" {
						mods[c] = true
					}
				}
			}
			if a {
				if os.Getenv("GOVC_TRACEHAVOC") != "" && !all {
					fmt.Fprintf(os.Stderr, "loop in %s havocs everything because of %v at %v\n", vc.key, in, vc.prog.prog.Fset.Position(in.Pos()))
				}
				all = true
			}
		}
	}
	freshOnly := map[string]bool{}
	for c := range mods {
		if !old[c] {
			freshOnly[c] = true
		}
	}
	return mods, freshOnly, all
}

// resolveLocal finds the value of a source-level local variable at the end of block at.
func (vc *VC) resolveLocal(name string, at *ssa.BasicBlock, h *Heap, subst map[*ssa.Phi]Term) (Term, bool) {
	for b := at; b != nil; b = b.Idom() {
		for i := len(b.Instrs) - 1; i >= 0; i-- {
			switch in := b.Instrs[i].(type) {
			case *ssa.DebugRef:
				id, ok := in.Expr.(*ast.Ident)
				if !ok || id.Name != name {
					continue
				}
				if _, isVar := in.Object().(*types.Var); !isVar {
					continue
				}
				if in.IsAddr {
					if a, ok := vc.addrs[in.X]; ok {
						return vc.load(h, a), true
					}
					if t, ok := vc.vals[in.X]; ok {
						return vc.loadPtr(h, t, "true", false), true
					}
					continue
				}
				if phi, ok := in.X.(*ssa.Phi); ok && subst != nil {
					if t, ok := subst[phi]; ok {
						return t, true
					}
				}
				// a variable that lives in a cell (its address is taken, or a closure captures it): the
				// value a reference saw once is not its value now - read the cell in the given state
				if al := vc.cellOf(in.Object()); al != nil {
					if a, ok := vc.addrs[al]; ok {
						return vc.load(h, a), true
					}
					if t, ok := vc.vals[al]; ok {
						return vc.loadPtr(h, t, "true", false), true
					}
				}
				if _, ok := vc.vals[in.X]; !ok {
					if _, isConst := in.X.(*ssa.Const); !isConst {
						continue
					}
				}
				return vc.value(in.X), true
			case *ssa.Phi:
				if in.Comment == name {
					if subst != nil {
						if t, ok := subst[in]; ok {
							return t, true
						}
					}
					if t, ok := vc.vals[in]; ok {
						return t, true
					}
				}
			}
		}
	}
	// address-taken locals and captured variables
	for _, b := range vc.fn.Blocks {
		for _, in := range b.Instrs {
			if al, ok := in.(*ssa.Alloc); ok && al.Comment == name {
				if t, ok := vc.vals[al]; ok {
					return vc.loadPtr(h, t, "true", false), true
				}
			}
		}
	}
	for _, fv := range vc.fn.FreeVars {
		if fv.Name() == name {
			return vc.loadPtr(h, vc.vals[fv], "true", false), true
		}
	}
	return Term{}, false
}

// cellOf: the allocation that holds source variable obj, if it has one
func (vc *VC) cellOf(obj types.Object) *ssa.Alloc {
	if obj == nil {
		return nil
	}
	for _, b := range vc.fn.Blocks {
		for _, in := range b.Instrs {
			if al, ok := in.(*ssa.Alloc); ok && al.Comment == obj.Name() && al.Pos() == obj.Pos() {
				return al
			}
		}
	}
	return nil
}

// ---- values -------------------------------------------------------------

func (vc *VC) value(v ssa.Value) Term {
	if t, ok := vc.vals[v]; ok {
		return t
	}
	switch x := v.(type) {
	case *ssa.Const:
		if x.Value == nil {
			return vc.u.zero(x.Type())
		}
		return vc.u.constTerm(x.Value, x.Type())
	case *ssa.Global:
		// the address of a global used as a value
		if _, isArr := x.Type().(*types.Pointer).Elem().Underlying().(*types.Array); isArr {
			n := "garr_" + sanitize(shortPkg(x.Pkg.Pkg.Path())) + "_" + x.Name()
			vc.u.declare(n, fmt.Sprintf("(declare-const %s Int)", n))
			vc.u.axiom(n+".pos", fmt.Sprintf("(assert (> %s 0))", n))
			return mk(n, SInt).withType(x.Type())
		}
		panic(unsupportedErr("address of global " + x.Name() + " used as a value"))
	case *ssa.Function:
		return vc.funcValue(x)
	case *ssa.Builtin:
		panic(unsupportedErr("builtin used as a value"))
	}
	if a, ok := vc.addrs[v]; ok {
		// address escaping as a value
		if a.kind == 'f' && len(a.path) == 0 {
			if isModuleStruct(a.typ) {
				panic(unsupportedErr(fmt.Sprintf("pointer to embedded struct field %s used as a value", a.comp)))
			}
		}
		panic(unsupportedErr(fmt.Sprintf("address in %s used as a value (%s)", a.comp, v.Name())))
	}
	panic(unsupportedErr(fmt.Sprintf("value %s (%T) used before definition", v.Name(), v)))
}

func (vc *VC) funcValue(f *ssa.Function) Term {
	name := "fn_" + sanitize(f.String())
	id, ok := vc.u.fnids[name]
	if !ok {
		h := fnv.New32a()
		h.Write([]byte(name))
		id = int(h.Sum32() % 100000000)
		for {
			clash := false
			for _, other := range vc.u.fnids {
				if other == id {
					clash = true
				}
			}
			if !clash {
				break
			}
			id++
		}
		vc.u.fnids[name] = id
	}
	vc.u.declare(name, fmt.Sprintf("(define-fun %s () Int %d)", name, 2000000000+id))
	return mk(name, SInt).withType(f.Type())
}

// address of v (v has pointer type)
func (vc *VC) addrOf(v ssa.Value, reach string, check bool) *Addr {
	if a, ok := vc.addrs[v]; ok {
		return a
	}
	if g, ok := v.(*ssa.Global); ok {
		et := g.Type().(*types.Pointer).Elem()
		comp := globalComp(g)
		s := vc.u.sortOf(et)
		vc.compDecl(comp, s)
		vc.compType[comp] = et
		return &Addr{comp: comp, kind: 'g', top: s, topT: et, typ: et}
	}
	// a pointer value: cell or struct object
	t := vc.value(v)
	et := v.Type().Underlying().(*types.Pointer).Elem()
	if check {
		vc.checkNonNil(t.S, reach, "dereference of "+v.Name())
	}
	if isModuleStruct(et) {
		return &Addr{kind: 's', ref: t.S, typ: et}
	}
	comp, s := vc.cellComp(et)
	return &Addr{comp: comp, kind: 'c', ref: t.S, top: s, topT: et, typ: et}
}

func (vc *VC) checkNonNil(p, reach, src string) {
	vc.nonNilCheck(p, reach, src)
	vc.assume(reach, not(eq(p, "0")))
}

// load through a pointer term
func (vc *VC) loadPtr(h *Heap, p Term, reach string, check bool) Term {
	et := p.T.Underlying().(*types.Pointer).Elem()
	if check {
		vc.checkNonNil(p.S, reach, "dereference")
	}
	if isModuleStruct(et) {
		return vc.loadStruct(h, p.S, et)
	}
	comp, s := vc.cellComp(et)
	return mk(app("select", vc.get(h, comp), p.S), s).withType(et)
}

// ---- instructions -----------------------------------------------------------

func (vc *VC) setVal(v ssa.Value, term string) Term {
	s := vc.u.sortOf(v.Type())
	t := mk(vc.define(v.Name(), s, term), s).withType(v.Type())
	vc.vals[v] = t
	return t
}

func (vc *VC) execInstr(b *ssa.BasicBlock, in ssa.Instruction, h *Heap, reach string) string {
	if !vc.inPanicExit {
		vc.curHeap = h
	}
	switch x := in.(type) {
	case *ssa.DebugRef:
		return reach
	case *ssa.Alloc:
		vc.execAlloc(x, h)
	case *ssa.FieldAddr:
		vc.execFieldAddr(x, h, reach)
	case *ssa.Field:
		xv := vc.value(x.X)
		st := x.X.Type().Underlying().(*types.Struct)
		if !isModuleStruct(x.X.Type()) {
			vc.setVal(x, app(vc.extAccessor(x.X.Type(), st, x.Field), xv.S))
		} else {
			vc.setVal(x, app(xv.Sort+"."+st.Field(x.Field).Name(), xv.S))
		}
	case *ssa.IndexAddr:
		vc.execIndexAddr(x, h, reach)
	case *ssa.Index:
		xv := vc.value(x.X)
		iv := vc.value(x.Index)
		if xv.Sort == SStr {
			vc.check("index", reach, and(app("<=", "0", iv.S), app("<", iv.S, app("gs.len", xv.S))), "string index")
			vc.setVal(x, app(vc.u.ufun("gs.byte", []Sort{SStr, SInt}, SInt), xv.S, iv.S))
			vc.assume("true", and(app("<=", "0", vc.vals[x].S), app("<=", vc.vals[x].S, "255")))
		} else {
			panic(unsupportedErr("Index on array value"))
		}
	case *ssa.UnOp:
		vc.execUnOp(x, h, reach)
	case *ssa.BinOp:
		vc.execBinOp(x, reach)
	case *ssa.Store:
		vc.execStore(x, h, reach)
	case *ssa.Convert:
		vc.execConvert(x, h)
	case *ssa.ChangeType:
		t := vc.value(x.X)
		vc.vals[x] = Term{S: t.S, Sort: t.Sort, T: x.Type()}
		if cl, ok := vc.closures[x.X]; ok {
			vc.closures[x] = cl
		}
	case *ssa.ChangeInterface:
		t := vc.value(x.X)
		vc.vals[x] = Term{S: t.S, Sort: t.Sort, T: x.Type()}
	case *ssa.MakeInterface:
		xv := vc.value(x.X)
		tag := vc.u.tagOf(x.X.Type())
		var payload string
		if isPointerLike(x.X.Type()) {
			payload = xv.S
		} else {
			payload = vc.u.box(x.X.Type(), xv)
		}
		vc.setVal(x, app("mk-iface", fmt.Sprint(tag), payload))
	case *ssa.TypeAssert:
		vc.execTypeAssert(x, reach)
	case *ssa.Extract:
		tup, ok := vc.tuples[x.Tuple]
		if !ok {
			panic(unsupportedErr("extract from unknown tuple " + x.Tuple.Name()))
		}
		t := tup[x.Index]
		t.T = x.Type()
		vc.vals[x] = t
	case *ssa.Slice:
		vc.execSlice(x, h, reach)
	case *ssa.MakeSlice:
		ln := vc.value(x.Len)
		cp := vc.value(x.Cap)
		vc.check("makeslice", reach, and(app("<=", "0", ln.S), app("<=", ln.S, cp.S)), "make([]T, n)")
		et := x.Type().Underlying().(*types.Slice).Elem()
		comp, es := vc.elemComp(et)
		r := vc.newRef(h, "mkslice")
		vc.set(h, comp, app("store", vc.get(h, comp), r, fmt.Sprintf("((as const (Array Int %s)) %s)", es, vc.u.zeroOfSort(es, et))))
		vc.setVal(x, app("mk-slice", r, "0", ln.S, cp.S))
	case *ssa.MakeMap:
		mt := x.Type().Underlying().(*types.Map)
		has, _, ks, _ := vc.mapComps(mt)
		r := vc.newRef(h, "mkmap")
		vc.set(h, has, app("store", vc.get(h, has), r, fmt.Sprintf("((as const (Array %s Bool)) false)", ks)))
		vc.set(h, "Msize", app("store", vc.get(h, "Msize"), r, "0"))
		vc.setVal(x, r)
	case *ssa.MapUpdate:
		m := vc.value(x.Map)
		k := vc.value(x.Key)
		v := vc.value(x.Value)
		mt := x.Map.Type().Underlying().(*types.Map)
		has, val, _, _ := vc.mapComps(mt)
		vc.check("nilmap", reach, not(eq(m.S, "0")), "assignment to entry in nil map")
		vc.storeInv(reach, v, x.Value.Type(), "a map")
		hasRow := app("select", vc.get(h, has), m.S)
		was := app("select", hasRow, k.S)
		vc.set(h, "Msize", app("store", vc.get(h, "Msize"), m.S, app("+", app("select", vc.get(h, "Msize"), m.S), ite(was, "0", "1"))))
		vc.set(h, has, app("store", vc.get(h, has), m.S, app("store", hasRow, k.S, "true")))
		vc.set(h, val, app("store", vc.get(h, val), m.S, app("store", app("select", vc.get(h, val), m.S), k.S, v.S)))
	case *ssa.Lookup:
		vc.execLookup(x, h, reach)
	case *ssa.Range:
		xv := vc.value(x.X)
		vc.vals[x] = Term{S: xv.S, Sort: xv.Sort, T: x.X.Type()}
	case *ssa.Next:
		vc.execNext(x, h, reach)
	case *ssa.Select:
		// only the non-blocking single-receive form is supported
		if x.Blocking || len(x.States) != 1 {
			panic(unsupportedErr("select statement form"))
		}
		idx := vc.fresh("select_idx", SInt)
		vc.emit(fmt.Sprintf("(assert (or (= %s 0) (= %s (- 1))))", idx, idx))
		tup := []Term{mk(idx, SInt), mk(vc.fresh("select_ok", SBool), SBool)}
		for _, st := range x.States {
			if st.Dir == types.RecvOnly {
				et := st.Chan.Type().Underlying().(*types.Chan).Elem()
				s := vc.u.sortOf(et)
				tup = append(tup, mk(vc.fresh("select_recv", s), s).withType(et))
			}
		}
		vc.tuples[x] = tup
	case *ssa.MakeClosure:
		vc.closures[x] = x
		r := vc.newRef(h, "closure")
		vc.vals[x] = mk(r, SInt).withType(x.Type())
	case *ssa.Call:
		vc.lastCallReach = ""
		res := vc.execCall(x, x.Common(), h, &reach)
		if vc.lastCallReach != "" {
			reach = vc.lastCallReach // execution continues only if the callee did not panic
		}
		vc.cover(fmt.Sprintf("aftercall.b%d.%d", b.Index, vc.counter("cover.call")), reach)
		sig := x.Common().Signature()
		switch sig.Results().Len() {
		case 0:
		case 1:
			t := res[0]
			t.T = x.Type()
			vc.vals[x] = t
		default:
			vc.tuples[x] = res
		}
	case *ssa.Defer:
		vc.defers = append(vc.defers, x)
	case *ssa.RunDefers:
		vc.execRunDefers(h, &reach)
	case *ssa.Go:
		panic(unsupportedErr("go statement"))
	case *ssa.Send:
		panic(unsupportedErr("channel send"))
	case *ssa.Panic:
		vc.safety("explicit", reach, "false", "panic()")
		return "false"
	case *ssa.If:
		c := vc.value(x.Cond).S
		out := reach
		vc.edge[[2]*ssa.BasicBlock{b, b.Succs[0]}] = vc.define(fmt.Sprintf("edge_%d_%d", b.Index, b.Succs[0].Index), SBool, and(out, c))
		vc.edge[[2]*ssa.BasicBlock{b, b.Succs[1]}] = vc.define(fmt.Sprintf("edge_%d_%d", b.Index, b.Succs[1].Index), SBool, and(out, not(c)))
		for i, s := range b.Succs {
			if s.Dominates(b) {
				vc.backEdge(b, s, h, vc.edge[[2]*ssa.BasicBlock{b, b.Succs[i]}])
			}
		}
	case *ssa.Jump:
		s := b.Succs[0]
		vc.edge[[2]*ssa.BasicBlock{b, s}] = reach
		if s.Dominates(b) {
			vc.backEdge(b, s, h, reach)
		}
	case *ssa.Return:
		vc.execReturn(b, x, h, reach)
	default:
		panic(unsupportedErr(fmt.Sprintf("instruction %T", in)))
	}
	return reach
}

// check = safety obligation followed by the assumption that it held
func (vc *VC) check(kind, reach, cond, src string) {
	vc.safety(kind, reach, cond, src)
	vc.assume(reach, cond)
}

func (vc *VC) execAlloc(x *ssa.Alloc, h *Heap) {
	et := x.Type().Underlying().(*types.Pointer).Elem()
	r := vc.newRef(h, "new_"+x.Comment)
	vc.vals[x] = mk(r, SInt).withType(x.Type())
	switch {
	case isModuleStruct(et):
		st := et.Underlying().(*types.Struct)
		for i := 0; i < st.NumFields(); i++ {
			comp, fs, ft := vc.fieldCompOf(et, i)
			vc.set(h, comp, app("store", vc.get(h, comp), r, vc.u.zeroOfSort(fs, ft)))
		}
	default:
		if at, ok := et.Underlying().(*types.Array); ok {
			comp, es := vc.elemComp(at.Elem())
			vc.set(h, comp, app("store", vc.get(h, comp), r, fmt.Sprintf("((as const (Array Int %s)) %s)", es, vc.u.zeroOfSort(es, at.Elem()))))
			return
		}
		comp, s := vc.cellComp(et)
		vc.set(h, comp, app("store", vc.get(h, comp), r, vc.u.zeroOfSort(s, et)))
	}
}

func (vc *VC) execFieldAddr(x *ssa.FieldAddr, h *Heap, reach string) {
	st := x.X.Type().Underlying().(*types.Pointer).Elem()
	stu := st.Underlying().(*types.Struct)
	ft := stu.Field(x.Field).Type()
	if base, ok := vc.addrs[x.X]; ok {
		// address inside a struct value stored in a component
		a := *base
		sel := pathSel{sort: vc.u.sortOf(st), st: stu, field: x.Field}
		if !isModuleStruct(st) {
			sel.ext = vc.extAccessor(st, stu, x.Field)
		}
		a.path = append(append([]pathSel{}, base.path...), sel)
		a.typ = ft
		vc.addrs[x] = &a
		return
	}
	p := vc.value(x.X)
	if _, isAlloc := x.X.(*ssa.Alloc); !isAlloc {
		vc.checkNonNil(p.S, reach, "field access through "+x.X.Name())
	}
	if !isModuleStruct(st) {
		// field of an external struct reached through a pointer: read-only, opaque
		comp, cs := vc.cellComp(st)
		vc.addrs[x] = &Addr{comp: comp, kind: 'c', ref: p.S, top: cs, topT: st, typ: ft,
			path: []pathSel{{sort: cs, st: stu, field: x.Field, ext: vc.extAccessor(st, stu, x.Field)}}}
		return
	}
	comp, fs, _ := vc.fieldCompOf(st, x.Field)
	_, fresh := x.X.(*ssa.Alloc)
	vc.addrs[x] = &Addr{comp: comp, kind: 'f', ref: p.S, top: fs, topT: ft, typ: ft, fresh: fresh}
}

func (vc *VC) execIndexAddr(x *ssa.IndexAddr, h *Heap, reach string) {
	iv := vc.value(x.Index)
	switch t := x.X.Type().Underlying().(type) {
	case *types.Slice:
		s := vc.value(x.X)
		vc.check("index", reach, and(app("<=", "0", iv.S), app("<", iv.S, app("s.len", s.S))), "index of "+x.X.Name())
		comp, es := vc.elemComp(t.Elem())
		vc.addrs[x] = &Addr{comp: comp, kind: 'e', ref: app("s.arr", s.S), off: app("s.off", s.S), idx: iv.S, top: es, topT: t.Elem(), typ: t.Elem()}
	case *types.Pointer:
		at := t.Elem().Underlying().(*types.Array)
		p := vc.value(x.X)
		if _, isAlloc := x.X.(*ssa.Alloc); !isAlloc {
			if _, isG := x.X.(*ssa.Global); !isG {
				vc.checkNonNil(p.S, reach, "index through nil array pointer")
			}
		}
		vc.check("index", reach, and(app("<=", "0", iv.S), app("<", iv.S, fmt.Sprint(at.Len()))), "array index")
		comp, es := vc.elemComp(at.Elem())
		vc.addrs[x] = &Addr{comp: comp, kind: 'e', ref: p.S, off: "0", idx: iv.S, top: es, topT: at.Elem(), typ: at.Elem()}
	default:
		panic(unsupportedErr("IndexAddr on " + x.X.Type().String()))
	}
}

func (vc *VC) execUnOp(x *ssa.UnOp, h *Heap, reach string) {
	switch x.Op {
	case token.MUL:
		if a, ok := vc.addrs[x.X]; ok {
			t := vc.load(h, a)
			vc.vals[x] = vc.setVal(x, t.S)
			vc.assume(reach, vc.allocated(h, vc.vals[x]))
			if _, isLocal := x.X.(*ssa.Alloc); !isLocal {
				vc.assume(reach, vc.objInv(vc.vals[x].S, x.Type(), 0))
			}
			return
		}
		if g, ok := x.X.(*ssa.Global); ok && g.Name() == "init$guard" {
			// a package initialiser runs exactly once
			vc.setVal(x, "false")
			return
		}
		if g, ok := x.X.(*ssa.Global); ok {
			et := g.Type().(*types.Pointer).Elem()
			if _, isArr := et.Underlying().(*types.Array); isArr {
				panic(unsupportedErr("load of whole global array"))
			}
			a := vc.addrOf(g, reach, false)
			t := vc.load(h, a)
			vc.setVal(x, t.S)
			vc.assume(reach, vc.allocated(h, vc.vals[x]))
			return
		}
		p := vc.value(x.X)
		t := vc.loadPtr(h, p, reach, true)
		vc.setVal(x, t.S)
		vc.assume(reach, vc.allocated(h, vc.vals[x]))
	case token.NOT:
		vc.setVal(x, not(vc.value(x.X).S))
	case token.SUB:
		v := vc.value(x.X)
		if v.Sort == SF64 {
			vc.setVal(x, app("fp.neg", v.S))
		} else {
			vc.setVal(x, wrapAddSub(app("-", v.S), x.Type()))
		}
	case token.XOR:
		v := vc.value(x.X)
		vc.setVal(x, wrapInt(app("-", app("-", v.S), "1"), x.Type()))
	case token.ARROW:
		s := vc.u.sortOf(x.Type())
		if x.CommaOk {
			et := x.Type().(*types.Tuple).At(0).Type()
			es := vc.u.sortOf(et)
			vc.tuples[x] = []Term{mk(vc.fresh("recv", es), es).withType(et), mk(vc.fresh("recvok", SBool), SBool)}
			return
		}
		vc.vals[x] = mk(vc.fresh("recv", s), s).withType(x.Type())
	default:
		panic(unsupportedErr("unary operator " + x.Op.String()))
	}
}

func (vc *VC) execBinOp(x *ssa.BinOp, reach string) {
	a := vc.value(x.X)
	b := vc.value(x.Y)
	ty := x.X.Type()
	switch x.Op {
	case token.EQL, token.NEQ:
		var r string
		if a.Sort == SF64 {
			r = app("fp.eq", a.S, b.S)
		} else {
			r = eq(a.S, b.S)
		}
		if x.Op == token.NEQ {
			r = not(r)
		}
		vc.setVal(x, r)
		return
	case token.LSS, token.LEQ, token.GTR, token.GEQ:
		op := map[token.Token]string{token.LSS: "<", token.LEQ: "<=", token.GTR: ">", token.GEQ: ">="}[x.Op]
		switch a.Sort {
		case SInt:
			vc.setVal(x, app(op, a.S, b.S))
		case SF64:
			m := map[string]string{"<": "fp.lt", "<=": "fp.leq", ">": "fp.gt", ">=": "fp.geq"}
			vc.setVal(x, app(m[op], a.S, b.S))
		case SStr:
			switch op {
			case "<":
				vc.setVal(x, app("gs.lt", a.S, b.S))
			case ">":
				vc.setVal(x, app("gs.lt", b.S, a.S))
			case "<=":
				vc.setVal(x, or(eq(a.S, b.S), app("gs.lt", a.S, b.S)))
			default:
				vc.setVal(x, or(eq(a.S, b.S), app("gs.lt", b.S, a.S)))
			}
		default:
			panic(unsupportedErr("ordering on " + a.Sort))
		}
		return
	}
	switch a.Sort {
	case SF64:
		m := map[token.Token]string{token.ADD: "fp.add", token.SUB: "fp.sub", token.MUL: "fp.mul", token.QUO: "fp.div"}
		f, ok := m[x.Op]
		if !ok {
			panic(unsupportedErr("float operator " + x.Op.String()))
		}
		vc.setVal(x, app(f, "RNE", a.S, b.S))
	case SStr:
		if x.Op != token.ADD {
			panic(unsupportedErr("string operator " + x.Op.String()))
		}
		vc.setVal(x, app("gs.cat", a.S, b.S))
	case SBool:
		switch x.Op {
		case token.AND, token.LAND:
			vc.setVal(x, and(a.S, b.S))
		case token.OR, token.LOR:
			vc.setVal(x, or(a.S, b.S))
		default:
			panic(unsupportedErr("bool operator " + x.Op.String()))
		}
	case SInt:
		switch x.Op {
		case token.ADD, token.SUB, token.MUL:
			op := map[token.Token]string{token.ADD: "+", token.SUB: "-", token.MUL: "*"}[x.Op]
			if x.Op == token.MUL {
				vc.setVal(x, wrapInt(app(op, a.S, b.S), ty))
			} else {
				vc.setVal(x, wrapAddSub(app(op, a.S, b.S), ty))
			}
		case token.QUO:
			vc.check("div0", reach, not(eq(b.S, "0")), "integer division")
			vc.setVal(x, wrapInt(tdiv(a.S, b.S), ty))
		case token.REM:
			vc.check("div0", reach, not(eq(b.S, "0")), "integer modulo")
			vc.setVal(x, trem(a.S, b.S))
		case token.SHL:
			vc.setVal(x, wrapInt(app("*", a.S, app(vc.pow2(), b.S)), ty))
		case token.SHR:
			vc.setVal(x, app("div", a.S, app(vc.pow2(), b.S)))
		case token.AND, token.OR, token.XOR, token.AND_NOT:
			name := map[token.Token]string{token.AND: "bit.and", token.OR: "bit.or", token.XOR: "bit.xor", token.AND_NOT: "bit.andnot"}[x.Op]
			vc.setVal(x, app(vc.u.ufun(name, []Sort{SInt, SInt}, SInt), a.S, b.S))
			if lo, hi, ok := intRange(ty); ok {
				vc.assume("true", and(app("<=", lo, vc.vals[x].S), app("<=", vc.vals[x].S, hi)))
			}
		default:
			panic(unsupportedErr("integer operator " + x.Op.String()))
		}
	default:
		panic(unsupportedErr("binary operator on " + a.Sort))
	}
}

func (vc *VC) pow2() string {
	vc.u.ufun("pow2", []Sort{SInt}, SInt)
	vc.u.axiom("pow2.0", "(assert (= (pow2 0) 1))")
	vc.u.axiom("pow2.s", "(assert (forall ((n Int)) (! (=> (> n 0) (= (pow2 n) (* 2 (pow2 (- n 1))))) :pattern ((pow2 n)))))")
	return "pow2"
}

func (vc *VC) execStore(x *ssa.Store, h *Heap, reach string) {
	v := vc.value(x.Val)
	if al, toLocal := x.Addr.(*ssa.Alloc); !toLocal || (al.Heap && !isLocalCell(al)) {
		// element stores into an array this activation allocated are exempt: the array is checked
		// as a whole when it is stored into an object (sliceObjInv)
		exempt := false
		if ia, ok := x.Addr.(*ssa.IndexAddr); ok {
			switch b := ia.X.(type) {
			case *ssa.MakeSlice:
				exempt = true
			case *ssa.Alloc:
				_ = b
				exempt = false
			default:
				if _, isSlice := ia.X.Type().Underlying().(*types.Slice); isSlice && freshSlice(ia.X, map[ssa.Value]bool{}) {
					exempt = true
				}
			}
		}
		if !exempt {
			// a slice of objects is checked as a whole only when this activation built its array
			if _, isSl := x.Val.Type().Underlying().(*types.Slice); !isSl || freshSlice(x.Val, map[ssa.Value]bool{}) {
				vc.storeHeap = h
			}
			vc.storeInv(reach, v, x.Val.Type(), "memory")
			vc.storeHeap = nil
		}
	}
	if a, ok := vc.addrs[x.Addr]; ok {
		vc.storeAddr(h, a, v)
		return
	}
	if g, ok := x.Addr.(*ssa.Global); ok {
		vc.storeAddr(h, vc.addrOf(g, reach, false), v)
		return
	}
	a := vc.addrOf(x.Addr, reach, true)
	vc.storeAddr(h, a, v)
}

func (vc *VC) storeAddr(h *Heap, a *Addr, v Term) {
	if a.kind == 's' {
		vc.storeStruct(h, a.ref, a.typ, v.S)
		return
	}
	vc.store(h, a, v.S)
}

func (vc *VC) execConvert(x *ssa.Convert, h *Heap) {
	v := vc.value(x.X)
	from, to := x.X.Type().Underlying(), x.Type().Underlying()
	fs, ts := vc.u.sortOf(from), vc.u.sortOf(to)
	switch {
	case fs == SInt && ts == SInt:
		vc.setVal(x, wrapInt(v.S, x.Type()))
	case fs == SInt && ts == SF64:
		vc.setVal(x, app(vc.u.ufun("i2f", []Sort{SInt}, SF64), v.S))
	case fs == SF64 && ts == SInt:
		vc.setVal(x, app(vc.u.ufun("f2i", []Sort{SF64}, SInt), v.S))
		if lo, hi, ok := intRange(x.Type()); ok {
			vc.assume("true", and(app("<=", lo, vc.vals[x].S), app("<=", vc.vals[x].S, hi)))
		}
	case fs == SF64 && ts == SF64:
		if from.(*types.Basic).Kind() == to.(*types.Basic).Kind() || to.(*types.Basic).Kind() == types.Float64 {
			vc.setVal(x, v.S)
		} else {
			vc.setVal(x, app(vc.u.ufun("f64to32", []Sort{SF64}, SF64), v.S))
		}
	case fs == SStr && ts == SStr:
		vc.setVal(x, v.S)
	case fs == SInt && ts == SStr:
		// string(rune)
		vc.setVal(x, app(vc.u.ufun("gs.fromRune", []Sort{SInt}, SStr), v.S))
	case fs == SStr && ts == SSlice:
		// []rune(s) or []byte(s): a fresh array holding the decoded contents
		et := to.(*types.Slice).Elem()
		comp, _ := vc.elemComp(et)
		var cnt, arrf string
		if et.Underlying().(*types.Basic).Kind() == types.Uint8 {
			cnt = app("gs.len", v.S)
			arrf = app(vc.u.ufun("gs.bytes", []Sort{SStr}, "(Array Int Int)"), v.S)
		} else {
			cnt = app(vc.runeCount(), v.S)
			arrf = app(vc.u.ufun("gs.runes", []Sort{SStr}, "(Array Int Int)"), v.S)
		}
		r := vc.newRef(h, "conv")
		vc.set(h, comp, app("store", vc.get(h, comp), r, arrf))
		vc.setVal(x, app("mk-slice", r, "0", cnt, cnt))
	case fs == SSlice && ts == SStr:
		et := from.(*types.Slice).Elem()
		comp, _ := vc.elemComp(et)
		row := app("select", vc.get(h, comp), app("s.arr", v.S))
		name := "gs.fromRunes"
		if et.Underlying().(*types.Basic).Kind() == types.Uint8 {
			name = "gs.fromBytes"
		}
		vc.setVal(x, app(vc.u.ufun(name, []Sort{"(Array Int Int)", SInt, SInt}, SStr), row, app("s.off", v.S), app("s.len", v.S)))
	case fs == ts:
		vc.setVal(x, v.S)
	default:
		panic(unsupportedErr(fmt.Sprintf("conversion %s -> %s", from, to)))
	}
}

func (vc *VC) runeCount() string {
	vc.u.ufun("gs.runeCount", []Sort{SStr}, SInt)
	vc.u.axiom("runeCount.range", "(assert (forall ((s Str)) (! (and (<= 0 (gs.runeCount s)) (<= (gs.runeCount s) (gs.len s))) :pattern ((gs.runeCount s)))))")
	return "gs.runeCount"
}

func (vc *VC) implTags(iface *types.Interface) []int {
	seen := map[int]bool{}
	var tags []int
	for _, nt := range vc.prog.allNamed {
		if _, isIface := nt.Underlying().(*types.Interface); isIface {
			continue
		}
		for _, t := range []types.Type{types.NewPointer(nt), nt} {
			if types.Implements(t, iface) {
				n := vc.u.tagOf(t)
				if !seen[n] {
					seen[n] = true
					tags = append(tags, n)
				}
			}
		}
	}
	return tags
}

func (vc *VC) execTypeAssert(x *ssa.TypeAssert, reach string) {
	v := vc.value(x.X)
	var ok string
	var val Term
	if it, isIface := x.AssertedType.Underlying().(*types.Interface); isIface {
		if it.NumMethods() == 0 {
			ok = not(eq(app("i.tag", v.S), "0"))
		} else {
			var alts []string
			for _, tg := range vc.implTags(it) {
				alts = append(alts, eq(app("i.tag", v.S), fmt.Sprint(tg)))
			}
			ok = or(alts...)
			vc.assumptions["closed-world: implementers of "+types.TypeString(x.AssertedType, nil)+" are module types"] = true
		}
		val = mk(v.S, SIface).withType(x.AssertedType)
	} else {
		tag := vc.u.tagOf(x.AssertedType)
		ok = eq(app("i.tag", v.S), fmt.Sprint(tag))
		if isPointerLike(x.AssertedType) {
			val = mk(app("i.val", v.S), SInt).withType(x.AssertedType)
		} else {
			val = vc.u.unbox(x.AssertedType, app("i.val", v.S))
		}
	}
	if x.CommaOk {
		okT := vc.define(x.Name()+"_ok", SBool, ok)
		z := vc.u.zeroOfSort(val.Sort, x.AssertedType)
		vc.tuples[x] = []Term{mk(vc.define(x.Name()+"_v", val.Sort, ite(okT, val.S, z)), val.Sort).withType(x.AssertedType), mk(okT, SBool)}
		return
	}
	vc.check("assert", reach, ok, "type assertion to "+types.TypeString(x.AssertedType, nil))
	vc.setVal(x, val.S)
}

func (vc *VC) execSlice(x *ssa.Slice, h *Heap, reach string) {
	lo, hi := "0", ""
	if x.Low != nil {
		lo = vc.value(x.Low).S
	}
	switch t := x.X.Type().Underlying().(type) {
	case *types.Slice:
		s := vc.value(x.X)
		hi = app("s.len", s.S)
		if x.High != nil {
			hi = vc.value(x.High).S
		}
		mx := app("s.cap", s.S)
		if x.Max != nil {
			mx = vc.value(x.Max).S
		}
		vc.check("slice", reach, and(app("<=", "0", lo), app("<=", lo, hi), app("<=", hi, mx), app("<=", mx, app("s.cap", s.S))), "slice bounds")
		vc.setVal(x, app("mk-slice", app("s.arr", s.S), app("+", app("s.off", s.S), lo), app("-", hi, lo), app("-", mx, lo)))
	case *types.Basic: // string
		s := vc.value(x.X)
		hi = app("gs.len", s.S)
		if x.High != nil {
			hi = vc.value(x.High).S
		}
		vc.check("slice", reach, and(app("<=", "0", lo), app("<=", lo, hi), app("<=", hi, app("gs.len", s.S))), "string slice bounds")
		vc.u.ufun("gs.sub", []Sort{SStr, SInt, SInt}, SStr)
		vc.u.axiom("gs.sub.len", "(assert (forall ((s Str) (a Int) (b Int)) (! (=> (and (<= 0 a) (<= a b) (<= b (gs.len s))) (= (gs.len (gs.sub s a b)) (- b a))) :pattern ((gs.sub s a b)))))")
		vc.setVal(x, app("gs.sub", s.S, lo, hi))
	case *types.Pointer:
		at := t.Elem().Underlying().(*types.Array)
		p := vc.value(x.X)
		n := fmt.Sprint(at.Len())
		hi = n
		if x.High != nil {
			hi = vc.value(x.High).S
		}
		vc.check("slice", reach, and(app("<=", "0", lo), app("<=", lo, hi), app("<=", hi, n)), "array slice bounds")
		vc.setVal(x, app("mk-slice", p.S, lo, app("-", hi, lo), app("-", n, lo)))
	default:
		panic(unsupportedErr("slice of " + x.X.Type().String()))
	}
}

func (vc *VC) execLookup(x *ssa.Lookup, h *Heap, reach string) {
	if mt, ok := x.X.Type().Underlying().(*types.Map); ok {
		m := vc.value(x.X)
		k := vc.value(x.Index)
		has, val, _, vs := vc.mapComps(mt)
		present := and(not(eq(m.S, "0")), app("select", app("select", vc.get(h, has), m.S), k.S))
		pd := vc.define(x.Name()+"_has", SBool, present)
		v := ite(pd, app("select", app("select", vc.get(h, val), m.S), k.S), vc.u.zeroOfSort(vs, mt.Elem()))
		if x.CommaOk {
			vt := mk(vc.define(x.Name()+"_v", vs, v), vs).withType(mt.Elem())
			vc.assume(reach, vc.allocated(h, vt))
			vc.assume(and(reach, pd), vc.objInv(vt.S, mt.Elem(), 0))
			vc.tuples[x] = []Term{vt, mk(pd, SBool)}
			return
		}
		vc.setVal(x, v)
		vc.assume(reach, vc.allocated(h, vc.vals[x]))
		vc.assume(and(reach, pd), vc.objInv(vc.vals[x].S, mt.Elem(), 0))
		return
	}
	// string index
	s := vc.value(x.X)
	i := vc.value(x.Index)
	vc.check("index", reach, and(app("<=", "0", i.S), app("<", i.S, app("gs.len", s.S))), "string index")
	vc.setVal(x, app(vc.u.ufun("gs.byte", []Sort{SStr, SInt}, SInt), s.S, i.S))
	vc.assume("true", and(app("<=", "0", vc.vals[x].S), app("<=", vc.vals[x].S, "255")))
}

func (vc *VC) execNext(x *ssa.Next, h *Heap, reach string) {
	it := vc.value(x.Iter)
	ok := vc.fresh(x.Name()+"_ok", SBool)
	if x.IsString {
		idx := vc.fresh(x.Name()+"_i", SInt)
		r := vc.fresh(x.Name()+"_r", SInt)
		vc.assume(ok, and(app("<=", "0", idx), app("<", idx, app("gs.len", it.S)), app("<=", "0", r), app("<=", r, "1114111")))
		vc.tuples[x] = []Term{mk(ok, SBool), mk(idx, SInt).withType(types.Typ[types.Int]), mk(r, SInt).withType(types.Typ[types.Rune])}
		return
	}
	mt := it.T.Underlying().(*types.Map)
	has, val, ks, vs := vc.mapComps(mt)
	k := vc.fresh(x.Name()+"_k", ks)
	kt := mk(k, ks).withType(mt.Key())
	vc.assume(ok, and(not(eq(it.S, "0")), app("select", app("select", vc.get(h, has), it.S), k)))
	v := mk(vc.define(x.Name()+"_v", vs, app("select", app("select", vc.get(h, val), it.S), k)), vs).withType(mt.Elem())
	vc.assume(ok, vc.allocated(h, v))
	vc.assume(ok, vc.allocated(h, kt))
	vc.assume(ok, vc.objInv(v.S, mt.Elem(), 0))
	vc.tuples[x] = []Term{mk(ok, SBool), kt, v}
	vc.assumptions["map iteration order is arbitrary (each Next yields some present key)"] = true
}

func (vc *VC) execReturn(b *ssa.BasicBlock, x *ssa.Return, h *Heap, reach string) {
	var results []Term
	for _, r := range x.Results {
		results = append(results, vc.value(r))
	}
	vc.checkReturn(b, results, h, reach, "")
}

func (vc *VC) retEnv(results []Term, h *Heap) *Env {
	env := vc.entryEnv()
	if vc.fn.Signature.Recv() != nil && len(vc.fn.Params) > 0 {
		env.vars["owner"] = vc.vals[vc.fn.Params[0]] // clauses inherited from a typed contract ("implements")
	}
	env.cur = h
	env.old = vc.entryHeap
	c := vc.contract
	sig := vc.fn.Signature
	for i, r := range results {
		r.T = sig.Results().At(i).Type()
		if i == 0 {
			env.vars["result"] = r
		}
		if c != nil && i < len(c.ResultNames) && c.ResultNames[i] != "" {
			env.vars[c.ResultNames[i]] = r
		} else if n := sig.Results().At(i).Name(); n != "" && n != "_" {
			if _, taken := env.vars[n]; !taken {
				env.vars[n] = r
			}
		}
	}
	return env
}

func (vc *VC) checkReturn(b *ssa.BasicBlock, results []Term, h *Heap, reach string, sfxIn string) {
	c := vc.contract
	sfx := ""
	if vc.dupSfx != "" {
		if vc.dupRet == 0 {
			vc.dupRet = vc.counter("return")
		}
		sfx = fmt.Sprintf("@ret%d%s", vc.dupRet, strings.Replace(vc.dupSfx, "@from", ".from", 1))
	} else {
		k := vc.counter("return")
		sfx = fmt.Sprintf("@ret%d", k)
	}
	vc.cover("return"+sfx, reach)
	env := vc.retEnv(results, h)
	if c != nil && c.Trusted != "" {
		vc.trusted[vc.key+" (trusted contract): "+c.Trusted] = true
	}
	if c != nil && c.Trusted == "" {
		for i, cl := range c.Ensures {
			s, err := env.evalGoal(cl.Expr)
			if err != nil {
				panic(evalError{fmt.Sprintf("ensures %s: %v", c.clauseName(cl, i), err)})
			}
			o := vc.oblige("ensures", c.clauseName(cl, i)+sfx, cl.Tags, reach, s, cl.Src)
			o.Pinned = cl.Pinned
		}
		if c.HasModifies {
			vc.frameObligations(c, h, reach, sfx)
		}
	}
	if vc.fn.Synthetic == "package initializer" {
		genv := vc.retEnv(results, h)
		for _, gi := range vc.prog.contracts.ginvs {
			if gi.Pkg != shortPkg(vc.fn.Pkg.Pkg.Path()) {
				continue
			}
			s, err := genv.evalGoal(gi.Cl.Expr)
			if err != nil {
				panic(evalError{"ginv " + gi.Cl.Label + ": " + err.Error()})
			}
			vc.oblige("ensures", "ginv."+gi.Cl.Label+sfx, gi.Cl.Tags, reach, s, gi.Cl.Src)
		}
	}
	// exit clauses of enclosing loops
	for hdr, n := range vc.loopHdr {
		if !vc.loopBody[hdr][b] {
			continue
		}
		ls := vc.loopSpec(n)
		if len(ls.Exits) == 0 {
			continue
		}
		lenv := vc.loopEnv(hdr, b, h, nil)
		for k, v := range env.vars {
			lenv.vars[k] = v
		}
		lenv.oldIsPre = true
		for i, cl := range ls.Exits {
			s, err := lenv.evalGoal(cl.Expr)
			if err != nil {
				panic(evalError{fmt.Sprintf("loop %d exit: %v", n, err)})
			}
			o := vc.oblige("exit", fmt.Sprintf("loop%d.%s%s", n, c.clauseName(cl, i), sfx), cl.Tags, reach, s, cl.Src)
			o.Pinned = cl.Pinned
		}
	}
}

// frame obligations for an explicit modifies clause
func (vc *VC) frameObligations(c *Contract, h *Heap, reach, sfx string) {
	for _, fg := range vc.frameGoals(c, h) {
		vc.oblige("frame", "frame."+fg[0]+sfx, vc.safetyTags(), reach, fg[1], "modifies clause: "+fg[0]+" unchanged outside the declared locations")
	}
}

// frameGoals: for every component whose version in h differs from the entry version, the formula
// "unchanged since function entry outside the locations the modifies clause allows"
func (vc *VC) frameGoals(c *Contract, h *Heap) [][2]string {
	env := vc.entryEnv()
	allowed := vc.modifiesItems(env, c)
	a0 := vc.get(vc.entryHeap, "$alloc")
	var out [][2]string
	for _, comp := range sortedKeys(vc.compSortSet()) {
		if comp == "$alloc" || isGhostComp(comp) {
			continue // ghost state is outside every frame
		}
		cur := vc.get(h, comp)
		old := vc.get(vc.entryHeap, comp)
		if cur == old {
			continue
		}
		s := vc.compSort[comp]
		var goal string
		if !strings.HasPrefix(s, "(Array Int ") {
			if allowed[comp] != nil {
				continue
			}
			goal = eq(cur, old)
		} else {
			var excl []string
			for _, r := range allowed[comp] {
				if r == "*" {
					excl = nil
					goal = "true"
					break
				}
				excl = append(excl, not(allowedCond(r, "r!f")))
			}
			if goal == "" {
				goal = fmt.Sprintf("(forall ((r!f Int)) (! %s :pattern ((select %s r!f))))", implies(and(append([]string{app("<=", "0", "r!f"), app("<=", "r!f", a0)}, excl...)...), eq(app("select", cur, "r!f"), app("select", old, "r!f"))), cur)
			}
		}
		if goal == "true" {
			continue
		}
		out = append(out, [2]string{comp, goal})
	}
	return out
}

func (vc *VC) compSortSet() map[string]bool {
	m := map[string]bool{}
	for c := range vc.compSort {
		m[c] = true
	}
	return m
}

// modifiesItems turns the modifies clause into comp -> allowed refs (in the old state)
func (vc *VC) modifiesItems(env *Env, c *Contract) map[string][]string {
	out := map[string][]string{}
	for _, e := range c.Modifies {
		vc.modItem(env, e, out)
	}
	return out
}

func (vc *VC) modItem(env *Env, e *Expr, out map[string][]string) {
	switch e.Op {
	case "sel":
		// x.f : field f of object x
		x, err := env.evalTerm(e.Args[0])
		if err != nil {
			panic(evalError{"modifies: " + err.Error()})
		}
		p, ok := x.T.Underlying().(*types.Pointer)
		if !ok {
			panic(evalError{"modifies: " + e.String() + " is not a field of a pointer"})
		}
		st := p.Elem().Underlying().(*types.Struct)
		for i := 0; i < st.NumFields(); i++ {
			if st.Field(i).Name() == e.Name {
				comp, _, _ := vc.fieldCompOf(p.Elem(), i)
				out[comp] = append(out[comp], x.S)
				return
			}
		}
		panic(evalError{"modifies: no field " + e.Name})
	case "index":
		// s[*] : all elements of the array behind slice s ; m[*]: all entries of map m ;
		// s[*][*]: all entries of every map that is an element of slice s
		if in := e.Args[0]; in.Op == "index" && len(in.Args) == 2 && in.Args[1].Op == "star" {
			x, err := env.evalTerm(in.Args[0])
			if err != nil {
				panic(evalError{"modifies: " + err.Error()})
			}
			if x.Sort == SSlice {
				if mt, ok := x.T.Underlying().(*types.Slice).Elem().Underlying().(*types.Map); ok {
					ecomp, _ := vc.elemComp(x.T.Underlying().(*types.Slice).Elem())
					row := app("select", vc.get(env.heap(), ecomp), app("s.arr", x.S))
					pred := fmt.Sprintf("λ(exists ((i!m Int)) (and (<= 0 i!m) (< i!m %s) (= %%r (%s %s %s i!m))))", app("s.len", x.S), vc.u.elt(SInt), row, app("s.off", x.S))
					has, val, _, _ := vc.mapComps(mt)
					out[has] = append(out[has], pred)
					out[val] = append(out[val], pred)
					out["Msize"] = append(out["Msize"], pred)
					return
				}
			}
			panic(evalError{"modifies: cannot interpret " + e.String()})
		}
		x, err := env.evalTerm(e.Args[0])
		if err != nil {
			panic(evalError{"modifies: " + err.Error()})
		}
		if x.Sort == SSlice {
			et := x.T.Underlying().(*types.Slice).Elem()
			comp, _ := vc.elemComp(et)
			out[comp] = append(out[comp], app("s.arr", x.S))
			return
		}
		if mt, ok := x.T.Underlying().(*types.Map); ok {
			has, val, _, _ := vc.mapComps(mt)
			out[has] = append(out[has], x.S)
			out[val] = append(out[val], x.S)
			out["Msize"] = append(out["Msize"], x.S)
			return
		}
		panic(evalError{"modifies: cannot interpret " + e.String()})
	case "ident":
		// a global variable, or a whole component by name: comp(F_x_y)
		if env.pkg != nil {
			if o := env.pkg.Scope().Lookup(e.Name); o != nil {
				if v, ok := o.(*types.Var); ok {
					comp := "G_" + sanitize(shortPkg(v.Pkg().Path())) + "_" + v.Name()
					vc.compDecl(comp, vc.u.sortOf(v.Type()))
					vc.compType[comp] = v.Type()
					out[comp] = append(out[comp], "*")
					return
				}
			}
		}
		panic(evalError{"modifies: unknown " + e.Name})
	case "call":
		if e.Name == "comp" && len(e.Args) == 1 && e.Args[0].Op == "ident" {
			out[e.Args[0].Name] = append(out[e.Args[0].Name], "*")
			return
		}
		if e.Name == "fields" && len(e.Args) == 1 {
			// every field of object x
			x, err := env.evalTerm(e.Args[0])
			if err != nil {
				panic(evalError{"modifies: " + err.Error()})
			}
			p := x.T.Underlying().(*types.Pointer)
			st := p.Elem().Underlying().(*types.Struct)
			for i := 0; i < st.NumFields(); i++ {
				comp, _, _ := vc.fieldCompOf(p.Elem(), i)
				out[comp] = append(out[comp], x.S)
			}
			return
		}
	}
	panic(evalError{"modifies: cannot interpret " + e.String()})
}

// a local variable cell (var x object.Object) may legitimately hold nil
func isLocalCell(a *ssa.Alloc) bool {
	et := a.Type().Underlying().(*types.Pointer).Elem()
	if _, isArr := et.Underlying().(*types.Array); isArr {
		return false
	}
	return !isModuleStruct(et)
}

// allowedCond: the condition "location r is one the modifies clause allows" for an entry of the
// allowed table (a reference term, or a predicate template starting with λ and mentioning %r)
func allowedCond(entry, r string) string {
	if strings.HasPrefix(entry, "λ") {
		return strings.ReplaceAll(strings.TrimPrefix(entry, "λ"), "%r", r)
	}
	return eq(r, entry)
}

// accessor of a field of an opaque external struct value
func (vc *VC) extAccessor(t types.Type, st *types.Struct, field int) string {
	s := vc.u.sortOf(t)
	name := "extfield." + sortKey(s) + "." + st.Field(field).Name()
	return vc.u.ufun(name, []Sort{s}, vc.u.sortOf(st.Field(field).Type()))
}

// inheritSteps: the iteration delegates to a callee; each postcondition of the callee, read with
// old() = the start of the iteration and the callee's error result = nil (the iteration completed),
// becomes a step obligation.
func (vc *VC) inheritSteps(n int, inh *Inherit, env *Env, reach, sfx string) {
	cc := vc.prog.contracts.byKey[inh.Callee]
	fn := vc.prog.funcs[inh.Callee]
	if cc == nil || fn == nil {
		panic(evalError{"loop inherit: no contract/function " + inh.Callee})
	}
	senv := *env
	senv.oldIsPre = true
	senv.vars = map[string]Term{}
	for k, v := range env.vars {
		senv.vars[k] = v
	}
	cond, err := senv.evalBool(inh.Cond)
	if err != nil {
		panic(evalError{"loop inherit condition: " + err.Error()})
	}
	for name, e := range inh.Binds {
		t, err := senv.evalTerm(e)
		if err != nil {
			panic(evalError{"loop inherit binding: " + err.Error()})
		}
		senv.vars[name] = t
	}
	sig := fn.Signature
	for i := 0; i < sig.Results().Len(); i++ {
		rt := sig.Results().At(i).Type()
		z := vc.u.zero(rt)
		if i == 0 {
			senv.vars["result"] = z
		}
		if i < len(cc.ResultNames) && cc.ResultNames[i] != "" {
			senv.vars[cc.ResultNames[i]] = z
		}
	}
	short := inh.Callee[strings.LastIndex(inh.Callee, ".")+1:]
	for i, cl := range cc.Ensures {
		s, err := senv.evalGoal(cl.Expr)
		if err != nil {
			panic(evalError{fmt.Sprintf("loop inherit %s: %v", cc.clauseName(cl, i), err)})
		}
		o := vc.oblige("step", fmt.Sprintf("loop%d.inherit.%s.%s%s", n, short, cc.clauseName(cl, i), sfx), cl.Tags, reach, implies(cond, s), "delegated to "+inh.Callee+": "+cl.Src)
		o.Pinned = cl.Pinned
	}
}

// ghost components (call log, counters, recorded results) are outside every frame: a modifies clause
// neither allows nor forbids changing them, on the proving side and on the using side alike
func isGhostComp(comp string) bool {
	return strings.HasPrefix(comp, "Gcalls_") || strings.HasPrefix(comp, "Ghash_") || strings.HasPrefix(comp, "Gres_") || strings.HasPrefix(comp, "Garg_") || strings.HasPrefix(comp, "Gcnt_") || comp == "Gerr_n"
}
