package main

// Common-subexpression sharing for emitted formulas: spec macros expand to large repeated terms;
// closed subterms (no bound variable inside) that occur more than once are bound by let.

import (
	"fmt"
	"strings"
)

type sx struct {
	atom  string
	kids  []*sx
	str   string
	bound bool // mentions a quantifier- or let-bound variable
}

func parseSx(s string) *sx {
	pos := 0
	var parse func() *sx
	parse = func() *sx {
		for pos < len(s) && (s[pos] == ' ' || s[pos] == '\n') {
			pos++
		}
		if pos >= len(s) {
			return nil
		}
		if s[pos] == '(' {
			pos++
			n := &sx{}
			for {
				for pos < len(s) && (s[pos] == ' ' || s[pos] == '\n') {
					pos++
				}
				if pos >= len(s) {
					return nil
				}
				if s[pos] == ')' {
					pos++
					return n
				}
				k := parse()
				if k == nil {
					return nil
				}
				n.kids = append(n.kids, k)
			}
		}
		st := pos
		for pos < len(s) && s[pos] != ' ' && s[pos] != '(' && s[pos] != ')' && s[pos] != '\n' {
			pos++
		}
		return &sx{atom: s[st:pos]}
	}
	n := parse()
	for pos < len(s) && (s[pos] == ' ' || s[pos] == '\n') {
		pos++
	}
	if pos != len(s) {
		return nil
	}
	return n
}

func isBinder(head string) bool { return head == "forall" || head == "exists" || head == "let" }

// annotate computes str and bound (relative to the set of bound names in scope)
func (n *sx) annotate(boundNames map[string]bool) {
	if n.kids == nil && n.atom != "" {
		n.str = n.atom
		n.bound = boundNames[n.atom]
		return
	}
	if len(n.kids) > 0 && n.kids[0].kids == nil && isBinder(n.kids[0].atom) && len(n.kids) >= 3 {
		inner := map[string]bool{}
		for k := range boundNames {
			inner[k] = true
		}
		for _, b := range n.kids[1].kids {
			if len(b.kids) > 0 {
				inner[b.kids[0].atom] = true
			}
		}
		n.bound = true // never hoist a binder form itself out of context cheaply; treat as opaque
		var parts []string
		for i, k := range n.kids {
			if i == 1 {
				// binder list: for let, the bound terms are evaluated in the outer scope
				for _, b := range k.kids {
					for j, bk := range b.kids {
						if j == 0 {
							bk.str = bk.atom
						} else if n.kids[0].atom == "let" {
							bk.annotate(boundNames)
						} else {
							bk.annotate(inner) // sort
						}
					}
					var bp []string
					for _, bk := range b.kids {
						bp = append(bp, bk.str)
					}
					b.str = "(" + strings.Join(bp, " ") + ")"
				}
				var bl []string
				for _, b := range k.kids {
					bl = append(bl, b.str)
				}
				k.str = "(" + strings.Join(bl, " ") + ")"
			} else {
				k.annotate(inner)
			}
			parts = append(parts, k.str)
		}
		n.str = "(" + strings.Join(parts, " ") + ")"
		return
	}
	var parts []string
	for _, k := range n.kids {
		k.annotate(boundNames)
		if k.bound {
			n.bound = true
		}
		parts = append(parts, k.str)
	}
	n.str = "(" + strings.Join(parts, " ") + ")"
}

var cseCounter int

func cse(f string) string {
	if len(f) < 600 {
		return f
	}
	root := parseSx(f)
	if root == nil {
		return f
	}
	root.annotate(map[string]bool{})
	count := map[string]int{}
	var walk func(n *sx)
	walk = func(n *sx) {
		if len(n.kids) == 0 {
			return
		}
		if !n.bound && len(n.str) >= 48 {
			count[n.str]++
			if count[n.str] > 1 {
				return // children already counted once
			}
		}
		for _, k := range n.kids {
			walk(k)
		}
	}
	walk(root)
	names := map[string]string{}
	var order []string
	// bottom-up replacement: render with substitution, registering shared closed terms
	var render func(n *sx) string
	render = func(n *sx) string {
		if len(n.kids) == 0 {
			if n.atom == "" {
				return "()"
			}
			return n.atom
		}
		if !n.bound && len(n.str) >= 48 && count[n.str] > 1 {
			if nm, ok := names[n.str]; ok {
				return nm
			}
			var parts []string
			for _, k := range n.kids {
				parts = append(parts, render(k))
			}
			body := "(" + strings.Join(parts, " ") + ")"
			cseCounter++
			nm := fmt.Sprintf("c!%d", len(order))
			names[n.str] = nm
			order = append(order, nm+" "+body)
			return nm
		}
		var parts []string
		for _, k := range n.kids {
			parts = append(parts, render(k))
		}
		return "(" + strings.Join(parts, " ") + ")"
	}
	body := render(root)
	if len(order) == 0 {
		return f
	}
	// nested lets in dependency order (each definition may use earlier names)
	var b strings.Builder
	for _, d := range order {
		i := strings.Index(d, " ")
		fmt.Fprintf(&b, "(let ((%s %s)) ", d[:i], d[i+1:])
	}
	b.WriteString(body)
	b.WriteString(strings.Repeat(")", len(order)))
	return b.String()
}
