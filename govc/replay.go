package main

// Replay of solver models against the real code (go test -overlay); filled in per obligation class.

func replayOnRealCode(o *Obligation, vc *VC) map[string]interface{} {
	return nil
}
