package main

import (
	"encoding/json"
	"fmt"
	"os"
	"os/exec"
	"path/filepath"
	"strings"
	"time"
)

// Bounded stand-ins (C02, C03, C18): whole-program properties of the compiler / optimizer / machine
// pipeline that no contract within reach of the generator decides.  The harness in /verif/rac is compiled
// into the repository's root package with `go test -overlay` (nothing is written into the repository) and
// run against the current working tree.  Its verdicts are labelled bounded and never counted as proved.

type racVio struct {
	ID       string `json:"id"`
	Fails    bool   `json:"fails"`
	Kind     string `json:"kind"`
	Script   string `json:"script"`
	Input    string `json:"input"`
	Expected string `json:"expected"`
	Got      string `json:"got"`
}

type racReport struct {
	Property   string   `json:"property"`
	Programs   int      `json:"programs"`
	Rejected   int      `json:"rejected_by_prepare"`
	Runs       int      `json:"runs"`
	Seed       int      `json:"seed"`
	MaxDepth   int      `json:"max_nesting_depth"`
	MaxSize    int      `json:"max_statements"`
	Distinct   int      `json:"distinct_nontrivial"`
	Samples    []string `json:"samples"`
	Violations []racVio `json:"violations"`
	Probes     []racVio `json:"probes"`
	Notes      []string `json:"notes"`
}

func isBounded(id string) bool { return id == "C02" || id == "C03" || id == "C18" }

func racDir() string {
	if d := os.Getenv("GOVC_RAC"); d != "" {
		return d
	}
	return home() + "/rac"
}

// supportHarness: bounded harnesses run in support of a property whose own deciding obligations are
// per-function contracts: the optimizer and the compiler sit between those contracts and what a script
// observes, and are themselves only covered by the bounded checks.
var supportHarness = map[string][]string{"C01": {"C02", "C03", "C14", "C12", "C17"}, "C04": {"C04"}, "C05": {"C02", "C03", "C12"}, "C06": {"C06"}, "C07": {"C04", "C06", "C17"}, "C09": {"C08", "C17"}, "C11": {"C08"}, "C15": {"C03"},
	"C16": {"C16", "C03"}, "C08": {"C08", "C13"}, "C13": {"C13", "C08"}, "C12": {"C12", "C13", "C03"}, "C14": {"C14"}, "C17": {"C17", "C14"}, "C19": {"C04"}, "C20": {"C20"}}

func runBounded(id, tier string, seed int, findings []*finding, res *propResult) (violLines, knownLines, notes []string) {
	return runHarness(id, id, tier, seed, findings, res)
}

// runHarness runs harness hid and reports under property id (hid == id: the property's own bounded check;
// otherwise supporting evidence: counts go under separate keys and the probes of listed findings are skipped)
func runHarness(id, hid, tier string, seed int, findings []*finding, res *propResult) (violLines, knownLines, notes []string) {
	own := id == hid && isBounded(id)
	cov := res.ev.Coverage
	if !own {
		cov = map[string]interface{}{}
		defer func() {
			sup, _ := res.ev.Coverage["bounded_support"].(map[string]interface{})
			if sup == nil {
				sup = map[string]interface{}{}
			}
			sup["rac."+hid] = cov
			res.ev.Coverage["bounded_support"] = sup
		}()
	}
	n := map[string]int{"C02": 600, "C03": 3000, "C18": 2500, "C08": 6000, "C13": 1500, "C14": 1, "C12": 4000, "C17": 1, "C04": 1, "C20": 150, "C06": 1, "C16": 1}[hid]
	big := "0"
	if tier == "thorough" {
		n = map[string]int{"C02": 12000, "C03": 120000, "C18": 60000, "C08": 400000, "C13": 40000, "C14": 4, "C12": 400000, "C17": 40, "C04": 4, "C20": 6000, "C06": 1, "C16": 200}[hid]
		if !own {
			n /= 4
		}
		big = "1"
	}
	tmp, err := os.MkdirTemp("", "govc-rac-")
	if err != nil {
		res.engineErr = "bounded harness: " + err.Error()
		return
	}
	defer os.RemoveAll(tmp)
	abs, _ := filepath.Abs(repoDir)
	repl := map[string]string{filepath.Join(abs, "vm", "zz_verif_access.go"): filepath.Join(racDir(), "vm_access.go")}
	files, _ := filepath.Glob(filepath.Join(racDir(), "rac_*_test.go"))
	for _, f := range files {
		repl[filepath.Join(abs, "zz_"+filepath.Base(f))] = f
	}
	ov := map[string]map[string]string{"Replace": repl}
	data, _ := json.Marshal(ov)
	ovPath := filepath.Join(tmp, "overlay.json")
	os.WriteFile(ovPath, data, 0o644)
	out := filepath.Join(tmp, "report.json")
	cmd := exec.Command("go", "test", "-tags", "verif", "-overlay", ovPath, "-vet=off", "-count=1", "-timeout", harnessTimeout(tier), "-run", "^TestRAC_"+hid+"$", ".")
	cmd.Dir = abs
	cmd.Env = append(os.Environ(), "GOFLAGS=-mod=mod", "GOPROXY=off", "GOSUMDB=off", "GOTOOLCHAIN=local",
		fmt.Sprintf("RAC_N=%d", n), "RAC_BIG="+big, fmt.Sprintf("VERIF_SEED=%d", seed), "RAC_OUT="+out)
	t0 := time.Now()
	outb, runErr := cmd.CombinedOutput()
	cov["bounded_harness_wall_s"] = time.Since(t0).Seconds()
	var rep racReport
	if data, err := os.ReadFile(out); err != nil || json.Unmarshal(data, &rep) != nil {
		// the harness did not build or did not finish: with the repository's own tests passing this means
		// the code under test no longer offers what the harness observes, or it crashed the test binary
		msg := strings.TrimSpace(string(outb))
		if len(msg) > 1500 {
			msg = msg[len(msg)-1500:]
		}
		path := writeBoundedReplay(id, "rac."+hid+".harness", map[string]string{"reason": "the bounded harness did not complete: " + fmt.Sprint(runErr), "output": msg})
		violLines = append(violLines, fmt.Sprintf("VIOLATION property=%s replay=%s obligation=rac.%s.harness status=did-not-complete no-failing-input-found", id, path, hid))
		cov["evaluations"] = 0
		return
	}
	cov["evaluations"] = rep.Runs
	cov["distinct_nontrivial"] = rep.Distinct
	cov["programs_generated"] = rep.Programs
	cov["programs_rejected_by_prepare"] = rep.Rejected
	cov["rule"] = fmt.Sprintf("BOUNDED, not a proof: %d generated scripts (seed %d, nesting depth <= %d, <= %d statements; if/else-if/else, while, foreach over array/string/hash/range, switch with literal, expression, regexp and default arms, ternary, return, host calls; %s) run on the real engine built from the working tree; a script is non-trivial when it holds a branching construct, distinct by text. %s",
		rep.Programs, rep.Seed, rep.MaxDepth, rep.MaxSize, map[string]string{
			"C02": "each under all 16 truth assignments of its conditions x 3 iterable shapes (empty, one, many) x optimised/unoptimised",
			"C03": "plus user-defined functions and constant arithmetic next to every construct; each run 6 times in sequence on two evaluators (optimised / NoOptimize)",
			"C18": "plus user-defined functions; the code held by the machine (optimised and not, main and function bodies) is walked on all paths by the structural verifier",
			"C14": "19 regexp patterns (leading groups, inline flags, escapes, alternation) x 5 flag spellings x 18 subjects x {~=, !~}; 30 string-literal texts (escapes, continuation, raw CR LF / tabs / Unicode) x both quote styles; 25 integer and decimal literals x 4 positions; 150 generated programs with other layout and comments between the statements; all optimised and not",
			"C13": "the full product of 28 invalid fragments (assignment to non-variables, nested ternaries, unterminated literals and brackets, missing operands, illegal characters) x 29 enclosing contexts, plus random nestings of two contexts",
			"C12": "expression trees over integer, float and boolean literals and fields with % ** * / + - comparisons == != && || prefix - ! and a top-level ternary, printed with the fewest parentheses the documented table allows and again fully parenthesised, x 3 objects x optimised/unoptimised",
			"C17": "time fields over a grid of instants x 12 zones (whole-hour, half-hour, 45-minute and historical sub-minute offsets); sort/reverse of random string arrays x 5 call forms; join(split(s, d), d) over 17 subjects x 7 delimiters; min/max over 17 x 17 numeric pairs, between over random triples",
			"C04": "28 field names x 12 host objects (structs by value and by pointer with every field kind, embedded structs sharing field names, two struct types that print alike, maps incl. keys spelled with and without $, nil), each evaluator run over all objects in two orders, optimised/unoptimised, then with a variable of the same name",
			"C06": "27 scripts about parameters, locals, loop variables ($-spelled ones too), global assignments, calls before the definition, recursion, wrong argument counts, unknown functions, built-ins before user-defined functions, returns from inside nested loops, failures and panics inside functions - each as a sequence of runs on one evaluator, with the variables left behind, optimised and not",
			"C16": "31 scripts about array order, inclusive ranges, indexing inside and outside (strings by character), hash keys of different types, absent keys, dot access, `in`, len and iteration of every container kind, plus 300 x N randomised indices, ranges and membership tests",
			"C20": "the driver binary built from the tree: 30 fixed and N generated scripts x 3 JSON documents x optimised/-no-optimizer (x -timeout) through `run`, malformed and missing JSON files, a never-ending script under -timeout, and generated / token-soup / random-byte scripts through lex, parse, bytecode and run",
			"C08": "a quarter each: generated valid scripts, the same with tokens deleted / duplicated / swapped / replaced, random sequences of the language's tokens, random bytes; each through Prepare (both modes), Execute, Run and Dump",
		}[hid], map[string]string{
			"C02": "Oracle: a reference interpreter of the fragment written from the language definition (rac_gen_test.go).",
			"C03": "Oracle: equality of result, host-call sequence, variables left and stack residue.",
			"C06": "Oracle: the result and the variables left behind that the property states (cases that run into the listed finding of C06 are left out).",
			"C16": "Oracle: the values the property states; for the randomised part a direct computation on the generated data.",
			"C20": "Oracle: the report line the driver prints equals the one built from Execute in this process on the same decoded document (type, printed value, truth, or the error); every sub-command ends with exit status 0 and without a runtime failure.",
			"C08": "Oracle: no panic reaches the caller of the API.",
			"C12": "Oracle: a reference evaluation of the TREE (integer arithmetic stays integer, int mixed with float in float, comparisons and logic as the language defines); cases where an error sits in an operand that short-circuiting might skip are left out.",
			"C17": "Oracle: Go's time package in the zone named by $TZ; ordered-permutation and input-unchanged for sort/reverse; identity for join after split; the script's own <= >= == for min/max/between.",
			"C04": "Oracle: the field's value converted as the property lists (promoted fields of embedded structs and kinds the engine cannot represent: null, an error, or the value); a name that is no field: null.",
			"C14": "Oracle: Go's regexp package on the pattern the literal denotes (backslash takes the next character literally; flags i and m), applied per trimmed line as the match built-in does; the escape rules of the property for strings; strconv for numbers; equality of result, host calls and variables for layout.",
			"C13": "Oracle: Prepare returns an error (and does not panic) for every invalid fragment in every context.",
			"C18": "Oracle: known opcodes, complete operands, jump targets on instruction starts inside the body, constant references in range and of the right kind, function bodies never run off their end, no operand underflow on any path.",
		}[hid])
	var samples []interface{}
	if !own {
		rep.Probes = nil
	}
	for _, s := range rep.Samples {
		samples = append(samples, map[string]string{"script": s})
	}
	if old, ok := cov["samples"].([]interface{}); ok {
		samples = append(samples, old...)
	}
	cov["samples"] = samples
	cov["bounded_exclusions"] = rep.Notes
	for _, v := range rep.Violations {
		name := fmt.Sprintf("rac.%s.%s", hid, v.Kind)
		path := writeBoundedReplay(id, name+"."+fmt.Sprint(len(violLines)+1), map[string]string{"obligation": name, "script": v.Script, "input": v.Input, "expected": v.Expected, "got": v.Got,
			"replay_status": "failing input found by the bounded harness on the real code (go test -overlay; rerun: /verif/tools/rac.sh " + hid + ")"})
		violLines = append(violLines, fmt.Sprintf("VIOLATION property=%s replay=%s obligation=%s status=failed input=%q", id, path, name, trunc(strings.ReplaceAll(v.Script, "\n", " "), 200)))
	}
	// several inputs may probe one listed finding: it reproduces if any of them fails
	var probes []racVio
	seenProbe := map[string]int{}
	for _, p := range rep.Probes {
		if i, ok := seenProbe[p.ID]; ok {
			if p.Fails && !probes[i].Fails {
				probes[i] = p
			}
			continue
		}
		seenProbe[p.ID] = len(probes)
		probes = append(probes, p)
	}
	for _, p := range probes {
		name := fmt.Sprintf("rac.%s.probe.%s", hid, p.ID)
		var hit *finding
		for _, f := range findings {
			if f.Kind == "finding" && f.re.MatchString(name) && strings.Contains(","+f.Property+",", ","+id+",") {
				hit = f
			}
		}
		switch {
		case p.Fails && hit != nil:
			knownLines = append(knownLines, fmt.Sprintf("KNOWN-FINDING: property=%s %s [%s]", id, hit.What, name))
		case p.Fails:
			path := writeBoundedReplay(id, name, map[string]string{"obligation": name, "script": p.Script, "input": p.Input, "expected": p.Expected, "got": p.Got, "replay_status": "failing input found on the real code"})
			violLines = append(violLines, fmt.Sprintf("VIOLATION property=%s replay=%s obligation=%s status=failed input=%q", id, path, name, trunc(strings.ReplaceAll(p.Script, "\n", " "), 200)))
		case hit != nil:
			notes = append(notes, fmt.Sprintf("NOTE: listed finding no longer reproduces (%s): %s", name, hit.What))
		}
	}
	cov["bounded_violations"] = len(violLines)
	return
}

func writeBoundedReplay(id, name string, fields map[string]string) string {
	dir := filepath.Join(outDir("replays"), id)
	os.MkdirAll(dir, 0o755)
	path := filepath.Join(dir, sanitize(name)+".json")
	fields["property"] = id
	data, _ := json.MarshalIndent(fields, "", " ")
	os.WriteFile(path, data, 0o644)
	return path
}

// harnessTimeout: the harness must end on its own; a hang (a deadlock in the code under test) ends the quick
// tier after ten minutes and is then reported as did-not-complete
func harnessTimeout(tier string) string {
	if tier == "thorough" {
		return "3000s"
	}
	return "600s"
}
