package main

import (
	"flag"
	"fmt"
	"go/types"
	"os"
	"regexp"
	"sort"
	"strconv"
	"strings"
	"time"

	"golang.org/x/tools/go/ssa"
)

var repoDir = "/repo"
var specDir = home() + "/spec"

// home: where spec/, rac/ and KNOWN_FINDINGS.txt are read from (default /verif; GOVC_HOME points a long
// regression run at a snapshot, so that the working copies can be edited meanwhile)
func home() string {
	if d := os.Getenv("GOVC_HOME"); d != "" {
		return d
	}
	return "/verif"
}

func usage() {
	fmt.Fprintln(os.Stderr, `usage:
  govc check <property> [--tier quick|thorough]    decide one property (MANIFEST interface)
  govc verify <regexp> [-v] [-dump]                verify the functions whose key matches
  govc ssa <regexp>                                print SSA of matching functions
  govc list                                        list functions, contracts
  govc replay <file>                               re-run a recorded violation`)
	os.Exit(2)
}

func main() {
	if len(os.Args) < 2 {
		usage()
	}
	switch os.Args[1] {
	case "verify":
		cmdVerify(os.Args[2:])
	case "ssa":
		cmdSSA(os.Args[2:])
	case "list":
		cmdList(os.Args[2:])
	case "check":
		cmdCheck(os.Args[2:])
	case "replay":
		cmdReplay(os.Args[2:])
	case "externals":
		cmdExternals()
	default:
		usage()
	}
}

func mustLoad() *Program {
	if d := os.Getenv("GOVC_REPO"); d != "" {
		repoDir = d
	}
	if d := os.Getenv("GOVC_SPEC"); d != "" {
		specDir = d
	}
	p, err := loadProgram(repoDir, specDir)
	if err != nil {
		fmt.Fprintln(os.Stderr, "govc: engine error:", err)
		os.Exit(2)
	}
	p.computeModSets()
	return p
}

func cmdSSA(args []string) {
	p := mustLoad()
	re := regexp.MustCompile(args[0])
	for _, k := range p.sortedFuncKeys() {
		if re.MatchString(k) {
			p.funcs[k].WriteTo(os.Stdout)
			for i, h := range p.loopHeaders(p.funcs[k]) {
				var pos string
				for b := range loopBody(h) {
					_ = b
				}
				for _, in := range h.Instrs {
					if in.Pos().IsValid() {
						pos = p.prog.Fset.Position(in.Pos()).String()
						break
					}
				}
				fmt.Printf("# loop %d: header block %d (%s) %s\n", i+1, h.Index, h.Comment, pos)
			}
		}
	}
}

func (p *Program) sortedFuncKeys() []string {
	var ks []string
	for k := range p.funcs {
		ks = append(ks, k)
	}
	sort.Strings(ks)
	return ks
}

func cmdList(args []string) {
	p := mustLoad()
	for _, k := range p.sortedFuncKeys() {
		f := p.funcs[k]
		if p.isTestFunc(f) {
			continue
		}
		c := ""
		if p.contracts.byKey[k] != nil {
			c = "contract"
		}
		fmt.Printf("%-70s %s\n", k, c)
	}
	for k := range p.contracts.byKey {
		if p.funcs[k] == nil {
			fmt.Printf("STALE contract: %s\n", k)
		}
	}
}

func cmdVerify(args []string) {
	fs := flag.NewFlagSet("verify", flag.ExitOnError)
	verbose := fs.Bool("v", false, "print every obligation")
	dump := fs.String("dump", "", "write the query of obligations matching this regexp to /tmp/govc-dump/")
	timeout := fs.Int("t", 10, "solver timeout (s)")
	safety := fs.Bool("safety", false, "treat functions without panics clause as panics never")
	nocache := fs.Bool("nocache", false, "ignore the verdict cache")
	all := fs.Bool("all", false, "run all solvers")
	covers := fs.Bool("covers", false, "vacuity guard: list program points that are provably unreachable")
	why := fs.String("why", "", "for undischarged obligations matching this regexp: print the path of the candidate countermodel")
	fs.Parse(args[1:])
	p := mustLoad()
	re := regexp.MustCompile(args[0])
	var jobs []job
	var vcs []*VC
	t0 := time.Now()
	for _, k := range p.sortedFuncKeys() {
		if !re.MatchString(k) || p.isTestFunc(p.funcs[k]) {
			continue
		}
		vc := newVC(p, p.funcs[k])
		if *safety {
			vc.mode = "safety"
		}
		if err := vc.run(); err != nil {
			fmt.Printf("ERROR %v\n", err)
			continue
		}
		vcs = append(vcs, vc)
		for _, n := range vc.notes {
			fmt.Println(n)
		}
		for _, o := range vc.obls {
			jobs = append(jobs, job{vc, o})
		}
	}
	fmt.Printf("generated %d obligations for %d functions in %.1fs\n", len(jobs), len(vcs), time.Since(t0).Seconds())
	if *covers {
		n, un := coverCheck(vcs, 2*time.Second)
		fmt.Printf("cover points: %d, unreachable: %d\n", n, len(un))
		for _, u := range un {
			fmt.Println("  UNREACHABLE", u, deadReason(u))
		}
		return
	}
	dischargeAll(jobs, solveOpts{timeout: time.Duration(*timeout) * time.Second, noCache: *nocache, all: *all})
	counts := map[string]int{}
	var dumpRe *regexp.Regexp
	if *dump != "" {
		dumpRe = regexp.MustCompile(*dump)
		os.MkdirAll("/tmp/govc-dump", 0o755)
	}
	for _, j := range jobs {
		o := j.o
		counts[o.Status]++
		if *verbose || o.Status != "proved" {
			fmt.Printf("%-8s %-60s %6.2fs %s  [%s] %s\n", o.Status, o.Name, o.Time, o.Solver, strings.Join(o.Tags, ","), trunc(o.Src, 80))
			if o.Status != "proved" {
				fmt.Printf("         at %s  %s\n", o.Pos, o.Detail)
			}
		}
		if *why != "" && o.Status != "proved" && regexp.MustCompile(*why).MatchString(o.Name) {
			explainPath(j.vc, o)
		}
		if dumpRe != nil && dumpRe.MatchString(o.Name) {
			fn := "/tmp/govc-dump/" + sanitize(o.Name) + ".smt2"
			os.WriteFile(fn, []byte(j.vc.query(o, true)), 0o644)
			if o.Model != "" {
				os.WriteFile(fn+".model", []byte(o.Model), 0o644)
			}
			fmt.Println("  dumped", fn)
		}
	}
	fmt.Printf("%v  total %.1fs\n", counts, time.Since(t0).Seconds())
}

// explainPath: which CFG edges does the (quantifier-free) candidate countermodel take?
func explainPath(vc *VC, o *Obligation) {
	q := vc.query(o, true)
	var b strings.Builder
	lines := strings.Split(q, "\n")
	edgeRe := regexp.MustCompile(`\(define-fun (edge_[0-9]+_[0-9]+![0-9]+) \(\) Bool`)
	var edges []string
	for i, l := range lines {
		if strings.HasPrefix(l, "(get-model)") {
			continue
		}
		if i < len(lines)-4 && strings.HasPrefix(l, "(assert") && (strings.Contains(l, "(forall ") || strings.Contains(l, "(exists ")) {
			continue
		}
		if m := edgeRe.FindStringSubmatch(l); m != nil {
			edges = append(edges, m[1])
		}
		b.WriteString(l)
		b.WriteString("\n")
	}
	if len(edges) == 0 {
		fmt.Println("  (no branch on the path)")
		return
	}
	b.WriteString("(get-value (" + strings.Join(edges, " ") + "))\n")
	r := runSolver("z3-new", b.String(), 10*time.Second)
	if r.verdict != "sat" {
		fmt.Println("  no candidate model:", r.verdict)
		return
	}
	valRe := regexp.MustCompile(`\((edge_([0-9]+)_([0-9]+)![0-9]+) true\)`)
	for _, m := range valRe.FindAllStringSubmatch(r.out, -1) {
		from, _ := strconv.Atoi(m[2])
		to, _ := strconv.Atoi(m[3])
		tb := vc.fn.Blocks[to]
		pos := ""
		for _, in := range tb.Instrs {
			if in.Pos().IsValid() {
				pos = vc.prog.prog.Fset.Position(in.Pos()).String()
				break
			}
		}
		fmt.Printf("  path: b%d -> b%d (%s) %s\n", from, to, tb.Comment, pos)
	}
}

// census of external callees of the library packages (for the effect table)
func cmdExternals() {
	p := mustLoad()
	seen := map[string][]string{}
	for _, k := range p.sortedFuncKeys() {
		f := p.funcs[k]
		if p.isTestFunc(f) || strings.HasPrefix(k, "cmd/") || strings.HasPrefix(k, "_examples") {
			continue
		}
		for _, b := range f.Blocks {
			for _, in := range b.Instrs {
				ci, ok := in.(ssa.CallInstruction)
				if !ok {
					continue
				}
				c := ci.Common()
				var name string
				if c.IsInvoke() {
					it := c.Value.Type().Underlying().(*types.Interface)
					if len(p.implementers(it, c.Method.Name())) > 0 {
						continue
					}
					name = "invoke " + types.TypeString(c.Value.Type(), nil) + "." + c.Method.Name()
				} else if fn, ok := c.Value.(*ssa.Function); ok {
					if fn.Pkg != nil && isModulePkg(fn.Pkg.Pkg) {
						continue
					}
					name = fn.String()
				} else if _, ok := c.Value.(*ssa.Builtin); ok {
					continue
				} else if _, ok := c.Value.(*ssa.MakeClosure); ok {
					continue
				} else {
					name = "dynamic " + types.TypeString(c.Value.Type(), nil)
				}
				seen[name] = append(seen[name], k)
			}
		}
	}
	var names []string
	for n := range seen {
		names = append(names, n)
	}
	sort.Strings(names)
	for _, n := range names {
		fmt.Printf("%-60s %d  e.g. %s\n", n, len(seen[n]), seen[n][0])
	}
}
