package main

// Loading of /repo (typed syntax + SSA), function keys, interface implementers.

import (
	"fmt"
	"go/types"
	"os"
	"sort"
	"strings"

	"golang.org/x/tools/go/packages"
	"golang.org/x/tools/go/ssa"
	"golang.org/x/tools/go/ssa/ssautil"
)

type Program struct {
	mutStructs map[string]string
	repo       string
	pkgs       []*packages.Package
	prog       *ssa.Program
	spkgs      []*ssa.Package
	funcs      map[string]*ssa.Function // key -> function (module functions incl. closures)
	keyOf      map[*ssa.Function]string
	contracts  *ContractSet
	tagTable   map[string]int
	tagTypes   map[int]types.Type
	modsets    map[*ssa.Function]*ModSet
	scratchVC  *VC
	allNamed   []*types.Named // module named types
	loopOrd    map[*ssa.Function]map[*ssa.BasicBlock]int
	typesPkg   map[string]*types.Package // short name -> package
}

func loadProgram(repo, specDir string) (*Program, error) {
	cfg := &packages.Config{Mode: packages.LoadAllSyntax, Dir: repo, BuildFlags: []string{"-tags=verif"},
		Env: append(os.Environ(), "GOFLAGS=-mod=mod", "GOPROXY=off", "GOSUMDB=off", "GOTOOLCHAIN=local")}
	pkgs, err := packages.Load(cfg, "./...")
	if err != nil {
		return nil, err
	}
	nerr := 0
	for _, p := range pkgs {
		for _, e := range p.Errors {
			fmt.Fprintf(os.Stderr, "load error: %v\n", e)
			nerr++
		}
	}
	if nerr > 0 {
		return nil, fmt.Errorf("%d package load errors (the tree does not compile)", nerr)
	}
	prog, spkgs := ssautil.AllPackages(pkgs, ssa.GlobalDebug)
	prog.Build()
	p := &Program{repo: repo, pkgs: pkgs, prog: prog, spkgs: spkgs, funcs: map[string]*ssa.Function{},
		keyOf: map[*ssa.Function]string{}, tagTable: map[string]int{}, tagTypes: map[int]types.Type{},
		modsets: map[*ssa.Function]*ModSet{}, typesPkg: map[string]*types.Package{}}
	for f := range ssautil.AllFunctions(prog) {
		if f.Pkg == nil || !isModulePkg(f.Pkg.Pkg) {
			continue
		}
		if f.Synthetic != "" && f.Synthetic != "package initializer" {
			continue
		}
		k := funcKey(f)
		p.funcs[k] = f
		p.keyOf[f] = k
	}
	for _, sp := range spkgs {
		if sp == nil || !isModulePkg(sp.Pkg) {
			continue
		}
		p.typesPkg[sp.Pkg.Name()] = sp.Pkg
		sc := sp.Pkg.Scope()
		for _, n := range sc.Names() {
			if tn, ok := sc.Lookup(n).(*types.TypeName); ok {
				if nt, ok := tn.Type().(*types.Named); ok {
					p.allNamed = append(p.allNamed, nt)
				}
			}
		}
	}
	sort.Slice(p.allNamed, func(i, j int) bool { return p.allNamed[i].String() < p.allNamed[j].String() })
	// stable tags for the module's named types (pointer and value forms)
	for _, nt := range p.allNamed {
		for _, t := range []types.Type{types.NewPointer(nt), nt} {
			k := types.TypeString(t, nil)
			n := len(p.tagTable) + 1
			p.tagTable[k] = n
			p.tagTypes[n] = t
		}
	}
	cs, err := loadContracts(repo, specDir)
	if err != nil {
		return nil, err
	}
	p.contracts = cs
	// "implements T": the function is stored into variables of function type T, so it must satisfy T's typed contract
	for _, c := range cs.byKey {
		if tn := c.Props["implements"]; tn != "" {
			tc := cs.typed[strings.Fields(tn)[0]]
			if tc == nil {
				return nil, fmt.Errorf("%s implements unknown typed contract %s", c.Key, tn)
			}
			for _, cl := range tc.Ensures {
				cp := *cl
				cp.Label = "implements." + strings.Fields(tn)[0] + "." + cl.Label
				// result names of the typed contract are mapped positionally onto the function's
				c.Ensures = append(c.Ensures, &cp)
			}
		}
	}
	return p, nil
}

func funcKey(f *ssa.Function) string {
	if f.Pkg == nil {
		return f.String()
	}
	rel := f.RelString(f.Pkg.Pkg)
	return shortPkg(f.Pkg.Pkg.Path()) + "." + rel
}

// isTestFunc reports whether the function comes from a _test.go file
func (p *Program) isTestFunc(f *ssa.Function) bool {
	pos := p.prog.Fset.Position(f.Pos())
	return strings.HasSuffix(pos.Filename, "_test.go")
}

func (p *Program) contractFor(f *ssa.Function) *Contract {
	if k, ok := p.keyOf[f]; ok {
		if c := p.contracts.byKey[k]; c != nil {
			return c
		}
	}
	return nil
}

// implementers of an interface method among module types
type impl struct {
	T  types.Type
	Fn *ssa.Function
}

func (p *Program) implementers(iface *types.Interface, method string) []impl {
	var out []impl
	for _, nt := range p.allNamed {
		if _, isIface := nt.Underlying().(*types.Interface); isIface {
			continue
		}
		for _, t := range []types.Type{types.NewPointer(nt), nt} {
			if !types.Implements(t, iface) {
				continue
			}
			ms := p.prog.MethodSets.MethodSet(t)
			sel := ms.Lookup(nil, method)
			if sel == nil {
				// unexported method in another package: look by iterating
				for i := 0; i < ms.Len(); i++ {
					if ms.At(i).Obj().Name() == method {
						sel = ms.At(i)
					}
				}
			}
			if sel == nil {
				continue
			}
			fn := p.prog.MethodValue(sel)
			if fn == nil {
				continue
			}
			// skip the value form when the pointer form is the declared receiver
			if _, isPtr := t.(*types.Pointer); !isPtr {
				// value receiver types: both T and *T implement; keep both (distinct tags)
			}
			out = append(out, impl{T: t, Fn: fn})
		}
	}
	return out
}

// loops of a function in source order: header blocks ordered by position of
// the first instruction with a position in the header or body.
func (p *Program) loopHeaders(f *ssa.Function) []*ssa.BasicBlock {
	var hs []*ssa.BasicBlock
	seen := map[*ssa.BasicBlock]bool{}
	for _, b := range f.Blocks {
		for _, s := range b.Succs {
			if s.Dominates(b) && !seen[s] {
				seen[s] = true
				hs = append(hs, s)
			}
		}
	}
	pos := func(h *ssa.BasicBlock) int {
		best := int(^uint(0) >> 1)
		body := loopBody(h)
		for b := range body {
			for _, in := range b.Instrs {
				if _, isPhi := in.(*ssa.Phi); isPhi {
					continue // a phi carries the position of the variable's declaration, possibly outside the loop
				}
				if in.Pos().IsValid() && int(in.Pos()) < best {
					best = int(in.Pos())
				}
			}
		}
		return best
	}
	sort.SliceStable(hs, func(i, j int) bool { return pos(hs[i]) < pos(hs[j]) })
	return hs
}

// natural loop body of header h (union over all its back edges)
func loopBody(h *ssa.BasicBlock) map[*ssa.BasicBlock]bool {
	body := map[*ssa.BasicBlock]bool{h: true}
	var stack []*ssa.BasicBlock
	for _, p := range h.Preds {
		if h.Dominates(p) {
			if !body[p] {
				body[p] = true
				stack = append(stack, p)
			}
		}
	}
	for len(stack) > 0 {
		b := stack[len(stack)-1]
		stack = stack[:len(stack)-1]
		for _, p := range b.Preds {
			if !body[p] {
				body[p] = true
				stack = append(stack, p)
			}
		}
	}
	return body
}
