package main

// Evaluation of contract expressions to SMT terms in a given program state.

import (
	"fmt"
	"go/types"
	"math/big"
	"regexp"
	"strings"
)

type Env struct {
	vc        *VC
	vars      map[string]Term
	preVars   map[string]Term // values of locals at loop head (pre())
	cur       *Heap
	old       *Heap
	pre       *Heap
	local     func(name string, pre bool) (Term, bool)
	pkg       *types.Package
	inPre     bool
	depth     int
	lastFacts []string
	atLoop    func(k int) *Env
	oldIsPre  bool // loop step/exit clauses: old() is the state at the loop head
	entryMode bool
	facts     *[]string // well-formedness facts about heap values read while evaluating (true of every Go heap)
}

func (env *Env) fact(f string) {
	if env.facts == nil || f == "true" {
		return
	}
	for _, g := range *env.facts {
		if g == f {
			return
		}
	}
	*env.facts = append(*env.facts, f)
}

// wfValue records the type invariant of a value read from the heap
func (env *Env) wfValue(t Term) Term {
	if env.facts == nil {
		return t
	}
	env.vc.compDecl("$alloc", SInt)
	al := env.vc.get(env.heap(), "$alloc")
	switch t.Sort {
	case SSlice:
		env.fact(and(app("<=", app("s.arr", t.S), al), app(">=", app("s.arr", t.S), "0"), app(">=", app("s.off", t.S), "0"), app(">=", app("s.len", t.S), "0"), app(">=", app("s.cap", t.S), app("s.len", t.S)), app("<=", app("s.cap", t.S), "9223372036854775807")))
	case SIface:
		env.fact(and(app(">=", app("i.tag", t.S), "0"), app(">=", app("i.val", t.S), "0"), app("<=", app("i.val", t.S), al)))
	case SInt:
		if t.T != nil {
			if isRefType(t.T) {
				env.fact(and(app(">=", t.S, "0"), app("<=", t.S, al)))
			} else if lo, hi, ok := intRange(t.T); ok {
				env.fact(and(app("<=", lo, t.S), app("<=", t.S, hi)))
			}
		}
	}
	return t
}

type evalError struct{ msg string }

func (e evalError) Error() string { return e.msg }

func efail(format string, args ...interface{}) {
	panic(evalError{fmt.Sprintf(format, args...)})
}

func (env *Env) with(name string, t Term) *Env {
	n := *env
	n.vars = make(map[string]Term, len(env.vars)+1)
	for k, v := range env.vars {
		n.vars[k] = v
	}
	n.vars[name] = t
	return &n
}

var nilTerm = Term{S: "nil", Sort: "NIL"}

// evalBool evaluates a clause; errors are returned, not panicked.
func (env *Env) evalBool(e *Expr) (s string, err error) {
	defer func() {
		if r := recover(); r != nil {
			if ee, ok := r.(evalError); ok {
				err = fmt.Errorf("%s (in %s)", ee.msg, e.String())
				return
			}
			panic(r)
		}
	}()
	var facts []string
	n := *env
	t := n.eval(e)
	if t.Sort != SBool {
		return "", fmt.Errorf("clause is not boolean: %s", e.String())
	}
	env.lastFacts = facts
	return t.S, nil
}

// evalGoal: the clause as a proof goal (heap type invariants may be assumed)
func (env *Env) evalGoal(e *Expr) (string, error) {
	s, err := env.evalBool(e)
	if err != nil {
		return "", err
	}
	return implies(and(env.lastFacts...), s), nil
}

// evalAssume: the clause as an assumption (together with the heap type invariants it mentions)
func (env *Env) evalAssume(e *Expr) (string, error) {
	s, err := env.evalBool(e)
	if err != nil {
		return "", err
	}
	return and(append(append([]string{}, env.lastFacts...), s)...), nil
}

func (env *Env) evalTerm(e *Expr) (t Term, err error) {
	defer func() {
		if r := recover(); r != nil {
			if ee, ok := r.(evalError); ok {
				err = fmt.Errorf("%s (in %s)", ee.msg, e.String())
				return
			}
			panic(r)
		}
	}()
	return env.eval(e), nil
}

func (env *Env) heap() *Heap { return env.cur }

func (env *Env) resolveType(s string) types.Type {
	n := 0
	for strings.HasPrefix(s[n:], "*") || strings.HasPrefix(s[n:], "[]") {
		if s[n] == '*' {
			n++
		} else {
			n += 2
		}
	}
	prefix, base := s[:n], s[n:]
	var t types.Type
	if strings.HasPrefix(base, "map[") {
		// map[K]V with K a simple type
		d, j := 0, -1
		for i, c := range base {
			if c == '[' {
				d++
			} else if c == ']' {
				d--
				if d == 0 {
					j = i
					break
				}
			}
		}
		if j < 0 {
			efail("bad map type %s", base)
		}
		t = types.NewMap(env.resolveType(base[4:j]), env.resolveType(base[j+1:]))
	} else if i := strings.Index(base, "."); i >= 0 {
		pn, tn := base[:i], base[i+1:]
		p := env.lookupPkg(pn)
		if p == nil {
			efail("unknown package %s", pn)
		}
		o := p.Scope().Lookup(tn)
		if o == nil {
			efail("unknown type %s", base)
		}
		t = o.Type()
	} else {
		if o := env.pkg.Scope().Lookup(base); o != nil {
			if _, ok := o.(*types.TypeName); ok {
				t = o.Type()
			}
		}
		if t == nil {
			if o := types.Universe.Lookup(base); o != nil {
				t = o.Type()
			}
		}
		if t == nil {
			efail("unknown type %s", base)
		}
	}
	for i := len(prefix); i > 0; {
		if prefix[i-1] == '*' {
			t = types.NewPointer(t)
			i--
		} else {
			t = types.NewSlice(t)
			i -= 2
		}
	}
	return t
}

func (env *Env) lookupPkg(name string) *types.Package {
	if env.pkg != nil {
		if env.pkg.Name() == name {
			return env.pkg
		}
		for _, imp := range env.pkg.Imports() {
			if imp.Name() == name {
				return imp
			}
		}
	}
	if p, ok := env.vc.prog.typesPkg[name]; ok {
		return p
	}
	return nil
}

func (env *Env) objTerm(o types.Object) Term {
	vc := env.vc
	switch ob := o.(type) {
	case *types.Const:
		return vc.u.constTerm(ob.Val(), ob.Type())
	case *types.Var:
		// package-level variable
		sp := vc.prog.prog.Package(ob.Pkg())
		if sp == nil {
			efail("no SSA package for %s", ob.Pkg().Path())
		}
		g, ok := sp.Members[ob.Name()].(interface{ Name() string })
		_ = g
		if !ok {
			efail("%s is not a global", ob.Name())
		}
		comp := "G_" + sanitize(shortPkg(ob.Pkg().Path())) + "_" + ob.Name()
		s := vc.u.sortOf(ob.Type())
		vc.compDecl(comp, s)
		vc.compType[comp] = ob.Type()
		return env.wfValue(mk(vc.get(env.heap(), comp), s).withType(ob.Type()))
	case *types.Nil:
		return nilTerm
	}
	efail("cannot use %s in a contract", o.Name())
	return Term{}
}

func (env *Env) coerceNil(a, b Term) (Term, Term) {
	if a.Sort == "NIL" && b.Sort != "NIL" {
		a = mk(env.vc.u.zeroOfSort(b.Sort, b.T), b.Sort)
	}
	if b.Sort == "NIL" && a.Sort != "NIL" {
		b = mk(env.vc.u.zeroOfSort(a.Sort, a.T), a.Sort)
	}
	return a, b
}

func (env *Env) eval(e *Expr) Term {
	vc := env.vc
	u := vc.u
	switch e.Op {
	case "int":
		return bigLit(e.Int).withType(types.Typ[types.UntypedInt])
	case "str":
		return mk(u.strLit(e.Str), SStr).withType(types.Typ[types.String])
	case "bool":
		return boolLit(e.Name == "true").withType(types.Typ[types.Bool])
	case "ident":
		if env.inPre && env.preVars != nil {
			if t, ok := env.preVars[e.Name]; ok {
				return t
			}
		}
		if t, ok := env.vars[e.Name]; ok {
			return t
		}
		if env.local != nil {
			if t, ok := env.local(e.Name, env.inPre); ok {
				return t
			}
			if env.inPre {
				// a name defined inside the iteration (op, opArg ...) keeps its value inside old()
				if t, ok := env.local(e.Name, false); ok {
					return t
				}
			}
		}
		if e.Name == "nil" {
			return nilTerm
		}
		if env.pkg != nil {
			if o := env.pkg.Scope().Lookup(e.Name); o != nil {
				return env.objTerm(o)
			}
		}
		efail("unknown identifier %s", e.Name)
	case "sel":
		if id := e.Args[0]; id.Op == "ident" {
			if _, isVar := env.vars[id.Name]; !isVar {
				isLocal := false
				if env.local != nil {
					_, isLocal = env.local(id.Name, false)
				}
				if !isLocal {
					if p := env.lookupPkg(id.Name); p != nil && (env.pkg == nil || env.pkg.Scope().Lookup(id.Name) == nil) {
						o := p.Scope().Lookup(e.Name)
						if o == nil {
							efail("unknown %s.%s", id.Name, e.Name)
						}
						return env.objTerm(o)
					}
				}
			}
		}
		x := env.eval(e.Args[0])
		if id := e.Args[0]; id.Op == "ident" && !env.hasField(x, e.Name) {
			// a variable that shadows a package name (e.g. receiver "vm" in package vm)
			if p := env.lookupPkg(id.Name); p != nil {
				if o := p.Scope().Lookup(e.Name); o != nil {
					return env.objTerm(o)
				}
			}
		}
		return env.selField(x, e.Name)
	case "index":
		x := env.eval(e.Args[0])
		i := env.eval(e.Args[1])
		return env.index(x, i)
	case "slice":
		x := env.eval(e.Args[0])
		if x.Sort != SSlice {
			efail("slicing a non-slice")
		}
		lo := "0"
		if e.Args[1] != nil {
			lo = env.eval(e.Args[1]).S
		}
		hi := app("s.len", x.S)
		if e.Args[2] != nil {
			hi = env.eval(e.Args[2]).S
		}
		return mk(app("mk-slice", app("s.arr", x.S), app("+", app("s.off", x.S), lo), app("-", hi, lo), app("-", app("s.cap", x.S), lo)), SSlice).withType(x.T)
	case "old":
		if env.oldIsPre {
			n := *env
			n.cur = env.pre
			n.inPre = true
			return n.eval(e.Args[0])
		}
		if env.old == nil {
			efail("old() not available here")
		}
		n := *env
		n.cur = env.old
		n.inPre = false
		// old of parameters is the parameter itself (SSA parameters are immutable)
		return n.eval(e.Args[0])
	case "call":
		if e.Name == "atloop" && len(e.Args) == 2 && e.Args[0].Op == "int" {
			if env.atLoop == nil {
				efail("atloop() outside a loop clause")
			}
			n := env.atLoop(int(e.Args[0].Int.Int64()))
			if n == nil {
				efail("atloop(%s): not an enclosing loop", e.Args[0].Int)
			}
			n.vars = env.vars
			return n.eval(e.Args[1])
		}
		if e.Name == "entry" && len(e.Args) == 1 {
			// value at function entry (loop clauses)
			n := *env
			n.cur = env.vc.entryHeap
			n.inPre = false
			n.entryMode = true
			return n.eval(e.Args[0])
		}
		return env.call(e)
	case "pre":
		if env.pre == nil {
			efail("pre() not available here")
		}
		n := *env
		n.cur = env.pre
		n.inPre = true
		return n.eval(e.Args[0])
	case "un":
		x := env.eval(e.Args[0])
		switch e.Name {
		case "!":
			if x.Sort != SBool {
				efail("! on non-bool")
			}
			return mk(not(x.S), SBool)
		case "-":
			if x.Sort == SF64 {
				return mk(app("fp.neg", x.S), SF64).withType(x.T)
			}
			return mk(app("-", x.S), SInt).withType(x.T)
		}
	case "bin":
		return env.bin(e)
	case "cond":
		c := env.eval(e.Args[0])
		a := env.eval(e.Args[1])
		b := env.eval(e.Args[2])
		a, b = env.coerceNil(a, b)
		if a.Sort != b.Sort {
			efail("branches of ?: have different sorts %s / %s", a.Sort, b.Sort)
		}
		return Term{S: ite(c.S, a.S, b.S), Sort: a.Sort, T: a.T}
	case "forall", "exists":
		if len(e.Args) == 3 {
			lo := env.eval(e.Args[0])
			hi := env.eval(e.Args[1])
			v := fmt.Sprintf("%s!q%d", e.Name, env.depth)
			n := env.with(e.Name, mk(v, SInt).withType(types.Typ[types.Int]))
			n.depth = env.depth + 1
			var qf []string
			body := n.eval(e.Args[2])
			rng := and(app("<=", lo.S, v), app("<", v, hi.S))
			if e.Op == "forall" {
				inner := implies(and(append([]string{rng}, qf...)...), body.S)
				if pats := eltPatterns(inner, v); pats != "" {
					return mk(fmt.Sprintf("(forall ((%s Int)) (! %s %s))", v, inner, pats), SBool)
				}
				return mk(fmt.Sprintf("(forall ((%s Int)) %s)", v, inner), SBool)
			}
			return mk(fmt.Sprintf("(exists ((%s Int)) %s)", v, and(append(append([]string{rng}, qf...), body.S)...)), SBool)
		}
		var s Sort
		var ty types.Type
		switch e.Type {
		case "int", "ref":
			s, ty = SInt, types.Typ[types.Int]
		case "bool":
			s = SBool
		case "string":
			s, ty = SStr, types.Typ[types.String]
		default:
			ty = env.resolveType(e.Type)
			s = u.sortOf(ty)
		}
		v := fmt.Sprintf("%s!q%d", e.Name, env.depth)
		n := env.with(e.Name, mk(v, s).withType(ty))
		n.depth = env.depth + 1
		var qf []string
		body := n.eval(e.Args[0])
		if e.Op == "forall" {
			return mk(fmt.Sprintf("(forall ((%s %s)) %s)", v, s, implies(and(qf...), body.S)), SBool)
		}
		return mk(fmt.Sprintf("(exists ((%s %s)) %s)", v, s, and(append(qf, body.S)...)), SBool)
	case "assert":
		x := env.eval(e.Args[0])
		_ = x
		ty := env.resolveType(e.Type)
		if x.Sort != SIface {
			efail("type assertion on non-interface")
		}
		if isPointerLike(ty) {
			return mk(app("i.val", x.S), SInt).withType(ty)
		}
		return u.unbox(ty, app("i.val", x.S))
	case "type":
		efail("type used as a value")
	}
	efail("cannot evaluate %s", e.String())
	return Term{}
}

func (env *Env) hasField(x Term, name string) bool {
	if x.T == nil {
		return false
	}
	t := x.T.Underlying()
	if p, ok := t.(*types.Pointer); ok {
		t = p.Elem().Underlying()
	}
	st, ok := t.(*types.Struct)
	if !ok {
		return false
	}
	for i := 0; i < st.NumFields(); i++ {
		if st.Field(i).Name() == name {
			return true
		}
	}
	return false
}

func (env *Env) selField(x Term, name string) Term {
	vc := env.vc
	if x.T == nil {
		efail("field %s of a value without Go type", name)
	}
	t := x.T
	if p, ok := t.Underlying().(*types.Pointer); ok {
		st, ok := p.Elem().Underlying().(*types.Struct)
		if !ok {
			efail("field %s of non-struct pointer", name)
		}
		for i := 0; i < st.NumFields(); i++ {
			if st.Field(i).Name() == name {
				comp, fs, ft := vc.fieldCompOf(p.Elem(), i)
				return env.wfValue(mk(app("select", vc.get(env.heap(), comp), x.S), fs).withType(ft))
			}
		}
		efail("no field %s in %s", name, p.Elem())
	}
	if st, ok := t.Underlying().(*types.Struct); ok {
		s := vc.u.sortOf(t)
		for i := 0; i < st.NumFields(); i++ {
			if st.Field(i).Name() == name {
				return mk(app(s+"."+name, x.S), vc.u.sortOf(st.Field(i).Type())).withType(st.Field(i).Type())
			}
		}
		efail("no field %s in %s", name, t)
	}
	efail("field %s of %s", name, t)
	return Term{}
}

func (env *Env) index(x, i Term) Term {
	vc := env.vc
	switch {
	case x.Sort == SSlice:
		var et types.Type
		if x.T != nil {
			if sl, ok := x.T.Underlying().(*types.Slice); ok {
				et = sl.Elem()
			}
		}
		if et == nil {
			efail("indexing a slice of unknown element type")
		}
		comp, es := vc.elemComp(et)
		return env.wfValue(mk(app(vc.u.elt(es), app("select", vc.get(env.heap(), comp), app("s.arr", x.S)), app("s.off", x.S), i.S), es).withType(et))
	case x.T != nil:
		if m, ok := x.T.Underlying().(*types.Map); ok {
			_, val, _, vs := vc.mapComps(m)
			return env.wfValue(mk(app("select", app("select", vc.get(env.heap(), val), x.S), i.S), vs).withType(m.Elem()))
		}
		if strings.HasPrefix(x.Sort, "(Array ") {
			break
		}
	}
	if strings.HasPrefix(x.Sort, "(Array ") {
		// (Array K V)
		inner := strings.TrimSuffix(strings.TrimPrefix(x.Sort, "(Array "), ")")
		// K is the first sort token
		k := firstSort(inner)
		v := strings.TrimSpace(inner[len(k):])
		return mk(app("select", x.S, i.S), v)
	}
	efail("cannot index a value of sort %s", x.Sort)
	return Term{}
}

func firstSort(s string) string {
	s = strings.TrimSpace(s)
	if !strings.HasPrefix(s, "(") {
		return strings.Fields(s)[0]
	}
	d := 0
	for i, c := range s {
		if c == '(' {
			d++
		}
		if c == ')' {
			d--
			if d == 0 {
				return s[:i+1]
			}
		}
	}
	return s
}

func (env *Env) bin(e *Expr) Term {
	op := e.Name
	switch op {
	case "&&", "||", "==>", "<==>":
		a := env.eval(e.Args[0])
		b := env.eval(e.Args[1])
		if a.Sort != SBool || b.Sort != SBool {
			efail("%s on non-boolean operands", op)
		}
		switch op {
		case "&&":
			return mk(and(a.S, b.S), SBool)
		case "||":
			return mk(or(a.S, b.S), SBool)
		case "==>":
			return mk(implies(a.S, b.S), SBool)
		default:
			return mk(eq(a.S, b.S), SBool)
		}
	}
	a := env.eval(e.Args[0])
	b := env.eval(e.Args[1])
	a, b = env.coerceNil(a, b)
	if a.Sort == "NIL" && b.Sort == "NIL" {
		efail("nil compared with nil")
	}
	if a.Sort != b.Sort {
		efail("operands of %s have sorts %s and %s", op, a.Sort, b.Sort)
	}
	switch op {
	case "===", "!==":
		r := eq(a.S, b.S)
		if op == "!==" {
			r = not(r)
		}
		return mk(r, SBool)
	case "==", "!=":
		var r string
		if a.Sort == SF64 {
			r = app("fp.eq", a.S, b.S)
		} else {
			r = eq(a.S, b.S)
		}
		if op == "!=" {
			r = not(r)
		}
		return mk(r, SBool)
	case "<", "<=", ">", ">=":
		switch a.Sort {
		case SInt:
			return mk(app(op, a.S, b.S), SBool)
		case SF64:
			m := map[string]string{"<": "fp.lt", "<=": "fp.leq", ">": "fp.gt", ">=": "fp.geq"}
			return mk(app(m[op], a.S, b.S), SBool)
		case SStr:
			switch op {
			case "<":
				return mk(app("gs.lt", a.S, b.S), SBool)
			case ">":
				return mk(app("gs.lt", b.S, a.S), SBool)
			case "<=":
				return mk(or(eq(a.S, b.S), app("gs.lt", a.S, b.S)), SBool)
			default:
				return mk(or(eq(a.S, b.S), app("gs.lt", b.S, a.S)), SBool)
			}
		}
		efail("ordering on sort %s", a.Sort)
	case "+", "-", "*", "/", "%":
		switch a.Sort {
		case SInt:
			ty := a.T
			if ty == nil || isUntyped(ty) {
				ty = b.T
			}
			switch op {
			case "/":
				return mk(tdiv(a.S, b.S), SInt).withType(ty)
			case "%":
				return mk(trem(a.S, b.S), SInt).withType(ty)
			}
			return mk(app(op, a.S, b.S), SInt).withType(ty)
		case SF64:
			m := map[string]string{"+": "fp.add", "-": "fp.sub", "*": "fp.mul", "/": "fp.div"}
			if f, ok := m[op]; ok {
				return mk(app(f, "RNE", a.S, b.S), SF64).withType(a.T)
			}
		case SStr:
			if op == "+" {
				return mk(app("gs.cat", a.S, b.S), SStr).withType(a.T)
			}
		}
		efail("operator %s on sort %s", op, a.Sort)
	}
	efail("unknown operator %s", op)
	return Term{}
}

func isUntyped(t types.Type) bool {
	b, ok := t.(*types.Basic)
	return ok && b.Info()&types.IsUntyped != 0
}

// Go's truncated division / remainder on mathematical integers.  A literal divisor gives the exact
// (linear) definition; otherwise the operation is an uninterpreted function shared by code and
// spec (nonlinear division is outside what the solvers decide reliably).
var litRe = regexp.MustCompile(`^[0-9]+$`)

func tdiv(x, y string) string {
	if !litRe.MatchString(y) {
		return app("godiv", x, y)
	}
	return fmt.Sprintf("(ite (>= %s 0) (ite (> %s 0) (div %s %s) (- (div %s (- %s)))) (ite (> %s 0) (- (div (- %s) %s)) (div (- %s) (- %s))))", x, y, x, y, x, y, y, x, y, x, y)
}

func trem(x, y string) string {
	if !litRe.MatchString(y) {
		return app("gorem", x, y)
	}
	return fmt.Sprintf("(- %s (* %s %s))", x, y, tdiv(x, y))
}

func (env *Env) call(e *Expr) Term {
	vc := env.vc
	u := vc.u
	argT := func(i int) Term {
		if i >= len(e.Args) {
			efail("%s: missing argument %d", e.Name, i+1)
		}
		return env.eval(e.Args[i])
	}
	switch e.Name {
	case "len":
		x := argT(0)
		switch {
		case x.Sort == SSlice:
			return mk(app("s.len", x.S), SInt).withType(types.Typ[types.Int])
		case x.Sort == SStr:
			return mk(app("gs.len", x.S), SInt).withType(types.Typ[types.Int])
		case x.T != nil:
			if _, ok := x.T.Underlying().(*types.Map); ok {
				vc.compDecl("Msize", "(Array Int Int)")
				return mk(ite(eq(x.S, "0"), "0", app("select", vc.get(env.heap(), "Msize"), x.S)), SInt).withType(types.Typ[types.Int])
			}
		}
		efail("len of sort %s", x.Sort)
	case "cap":
		x := argT(0)
		return mk(app("s.cap", x.S), SInt).withType(types.Typ[types.Int])
	case "arr":
		x := argT(0)
		return mk(app("s.arr", x.S), SInt)
	case "off":
		x := argT(0)
		return mk(app("s.off", x.S), SInt)
	case "has":
		m := argT(0)
		k := argT(1)
		mt, ok := m.T.Underlying().(*types.Map)
		if !ok {
			efail("has() on non-map")
		}
		has, _, _, _ := vc.mapComps(mt)
		return mk(and(not(eq(m.S, "0")), app("select", app("select", vc.get(env.heap(), has), m.S), k.S)), SBool)
	case "mapUnchanged", "mapUpdated", "mapRemovedKey":
		// relations between the old and the current contents of one map (row equalities, no quantifier)
		m := argT(0)
		mt, ok := m.T.Underlying().(*types.Map)
		if !ok {
			efail("%s on non-map", e.Name)
		}
		if env.old == nil {
			efail("%s needs an old state", e.Name)
		}
		if env.oldIsPre {
			n := *env
			n.old = env.pre
			n.oldIsPre = false
			env = &n
		}
		has, val, _, _ := vc.mapComps(mt)
		hc, ho := app("select", vc.get(env.heap(), has), m.S), app("select", vc.get(env.old, has), m.S)
		vcur, vo := app("select", vc.get(env.heap(), val), m.S), app("select", vc.get(env.old, val), m.S)
		sc, so := app("select", vc.get(env.heap(), "Msize"), m.S), app("select", vc.get(env.old, "Msize"), m.S)
		switch e.Name {
		case "mapUnchanged":
			return mk(and(eq(hc, ho), eq(vcur, vo), eq(sc, so)), SBool)
		case "mapUpdated":
			k, v := argT(1), argT(2)
			return mk(and(eq(hc, app("store", ho, k.S, "true")), eq(vcur, app("store", vo, k.S, v.S)),
				eq(sc, app("+", so, ite(app("select", ho, k.S), "0", "1")))), SBool)
		}
		efail("%s not supported", e.Name)
	case "mk":
		// mk(T, f1, f2, ...): a struct value
		if len(e.Args) < 1 || e.Args[0].Op != "type" && e.Args[0].Op != "sel" && e.Args[0].Op != "ident" {
			efail("mk(T, fields...)")
		}
		tn := e.Args[0].Type
		if e.Args[0].Op == "sel" {
			tn = e.Args[0].Args[0].Name + "." + e.Args[0].Name
		} else if e.Args[0].Op == "ident" {
			tn = e.Args[0].Name
		}
		ty := env.resolveType(tn)
		st, ok := ty.Underlying().(*types.Struct)
		if !ok || st.NumFields() != len(e.Args)-1 {
			efail("mk: %s is not a struct with %d fields", tn, len(e.Args)-1)
		}
		srt := u.sortOf(ty)
		var fs []string
		for i := 1; i < len(e.Args); i++ {
			a := argT(i)
			if want := u.sortOf(st.Field(i - 1).Type()); a.Sort != want {
				efail("mk: field %s has sort %s, want %s", st.Field(i-1).Name(), a.Sort, want)
			}
			fs = append(fs, a.S)
		}
		return mk(app("mk-"+srt, fs...), srt).withType(ty)
	case "istype":
		x := argT(0)
		if len(e.Args) != 2 || e.Args[1].Op != "type" {
			efail("istype(x, T)")
		}
		ty := env.resolveType(e.Args[1].Type)
		return mk(eq(app("i.tag", x.S), fmt.Sprint(u.tagOf(ty))), SBool)
	case "tag":
		x := argT(0)
		return mk(app("i.tag", x.S), SInt)
	case "ptr":
		x := argT(0)
		return mk(app("i.val", x.S), SInt)
	case "isnil":
		x := argT(0)
		return mk(eq(x.S, u.zeroOfSort(x.Sort, x.T)), SBool)
	case "fresh":
		// allocated during the call / since function entry
		x := argT(0)
		if env.old == nil {
			efail("fresh() needs an old state")
		}
		if env.oldIsPre {
			n := *env
			n.old = env.pre
			n.oldIsPre = false
			env = &n
		}
		vc.compDecl("$alloc", SInt)
		r := x.S
		if x.Sort == SIface {
			r = app("i.val", x.S)
		} else if x.Sort == SSlice {
			r = app("s.arr", x.S)
		}
		return mk(app(">", r, vc.get(env.old, "$alloc")), SBool)
	case "lastresult":
		// lastresult(F): ghost - the first result of the latest call of function F (its contract says "records result")
		if len(e.Args) != 1 || e.Args[0].Op != "ident" {
			efail("lastresult(FunctionName)")
		}
		g := "Gres_" + sanitize(e.Args[0].Name)
		srt, ok := vc.compSort[g]
		if !ok {
			efail("no call of %s recorded here", e.Args[0].Name)
		}
		t := mk(vc.get(env.heap(), g), srt)
		if srt == SIface {
			t.T = env.resolveType("object.Object")
		}
		return t
	case "count":
		// count(name): ghost counter declared by "countstores name component"
		if len(e.Args) != 1 || e.Args[0].Op != "ident" {
			efail("count(name)")
		}
		g := "Gcnt_" + e.Args[0].Name
		vc.compDecl(g, SInt)
		return mk(vc.get(env.heap(), g), SInt).withType(types.Typ[types.Int])
	case "lastarg":
		// lastarg(F): ghost - the recorded argument of the latest call of F ("records arg <param>")
		if len(e.Args) != 1 || e.Args[0].Op != "ident" {
			efail("lastarg(FunctionName)")
		}
		g := "Garg_" + sanitize(e.Args[0].Name)
		srt, ok := vc.compSort[g]
		if !ok {
			efail("no call of %s recorded here", e.Args[0].Name)
		}
		return mk(vc.get(env.heap(), g), srt).withType(types.Typ[types.Int])
	case "nerrs":
		vc.compDecl("Gerr_n", SInt)
		return mk(vc.get(env.heap(), "Gerr_n"), SInt).withType(types.Typ[types.Int])
	case "ncalls":
		vc.callLogDecl()
		return mk(vc.get(env.heap(), "Gcalls_n"), SInt).withType(types.Typ[types.Int])
	case "callfn":
		vc.callLogDecl()
		return mk(app("select", vc.get(env.heap(), "Gcalls_fn"), argT(0).S), SInt)
	case "callargs":
		vc.callLogDecl()
		return mk(app("select", vc.get(env.heap(), "Gcalls_args"), argT(0).S), SSlice).withType(types.NewSlice(env.resolveType("object.Object")))
	case "existed":
		// allocated before the old state (function entry / start of the iteration)
		x := argT(0)
		if env.old == nil {
			efail("existed() needs an old state")
		}
		oh := env.old
		if env.oldIsPre {
			oh = env.pre
		}
		vc.compDecl("$alloc", SInt)
		r := x.S
		if x.Sort == SIface {
			r = app("i.val", x.S)
		} else if x.Sort == SSlice {
			r = app("s.arr", x.S)
		}
		return mk(and(app("<", "0", r), app("<=", r, vc.get(oh, "$alloc"))), SBool)
	case "rowUnchanged":
		// rowUnchanged(T, a): the []T backing array with id a has the same contents as in the old state
		if len(e.Args) != 2 || (e.Args[0].Op != "type" && e.Args[0].Op != "ident" && e.Args[0].Op != "sel") {
			efail("rowUnchanged(T, a)")
		}
		tn := e.Args[0].Type
		if e.Args[0].Op == "ident" {
			tn = e.Args[0].Name
		} else if e.Args[0].Op == "sel" {
			tn = e.Args[0].Args[0].Name + "." + e.Args[0].Name
		}
		a := argT(1)
		oh := env.old
		if env.oldIsPre {
			oh = env.pre
		}
		if oh == nil {
			efail("rowUnchanged needs an old state")
		}
		comp, _ := vc.elemComp(env.resolveType(tn))
		return mk(eq(app("select", vc.get(env.heap(), comp), a.S), app("select", vc.get(oh, comp), a.S)), SBool)
	case "rowSameSince":
		// rowSameSince(k, T, a): the []T backing array with id a has the contents it had at the head of the
		// enclosing loop k (the start of that loop's current iteration)
		if len(e.Args) != 3 || e.Args[0].Op != "int" || env.atLoop == nil {
			efail("rowSameSince(k, T, a) in a loop clause")
		}
		le := env.atLoop(int(e.Args[0].Int.Int64()))
		if le == nil {
			efail("rowSameSince: not an enclosing loop")
		}
		tn := e.Args[1].Type
		if e.Args[1].Op == "ident" {
			tn = e.Args[1].Name
		} else if e.Args[1].Op == "sel" {
			tn = e.Args[1].Args[0].Name + "." + e.Args[1].Name
		}
		a := argT(2)
		comp, _ := vc.elemComp(env.resolveType(tn))
		return mk(eq(app("select", vc.get(env.heap(), comp), a.S), app("select", vc.get(le.cur, comp), a.S)), SBool)
	case "objRowUnchanged":
		// the []object.Object backing array with id a has the same contents as in the old state
		a := argT(0)
		oh := env.old
		if env.oldIsPre {
			oh = env.pre
		}
		if oh == nil {
			efail("objRowUnchanged needs an old state")
		}
		comp, _ := vc.elemComp(env.resolveType("object.Object"))
		return mk(eq(app("select", vc.get(env.heap(), comp), a.S), app("select", vc.get(oh, comp), a.S)), SBool)
	case "toiface":
		// the interface value holding pointer x (as MakeInterface builds it)
		x := argT(0)
		if x.T == nil || !isPointerLike(x.T) {
			efail("toiface needs a typed pointer")
		}
		return mk(app("mk-iface", fmt.Sprint(u.tagOf(x.T)), x.S), SIface)
	case "funcval":
		// the function value stored in an interface{} (e.g. an entry of Environment.functions)
		x := argT(0)
		return mk(app("i.val", x.S), SInt)
	case "wrap64":
		x := argT(0)
		return mk(wrapInt(x.S, types.Typ[types.Int64]), SInt).withType(types.Typ[types.Int64])
	case "wrapu64":
		x := argT(0)
		return mk(wrapInt(x.S, types.Typ[types.Uint64]), SInt).withType(types.Typ[types.Uint64])
	case "sprintf":
		f := argT(0)
		var elems []Term
		for i := 1; i < len(e.Args); i++ {
			a := argT(i)
			if a.T == nil {
				efail("sprintf argument %d has no Go type", i)
			}
			var payload string
			if a.Sort == SIface {
				elems = append(elems, a)
				continue
			}
			if isPointerLike(a.T) {
				payload = a.S
			} else {
				payload = u.box(a.T, a)
			}
			elems = append(elems, mk(app("mk-iface", fmt.Sprint(u.tagOf(a.T)), payload), SIface))
		}
		return vc.sprintfTerm(f, elems)
	case "wrap16":
		x := argT(0)
		return mk(wrapInt(x.S, types.Typ[types.Uint16]), SInt).withType(types.Typ[types.Uint16])
	case "wrap8":
		x := argT(0)
		return mk(wrapInt(x.S, types.Typ[types.Uint8]), SInt).withType(types.Typ[types.Uint8])
	case "i2f":
		x := argT(0)
		return mk(app(u.ufun("i2f", []Sort{SInt}, SF64), x.S), SF64).withType(types.Typ[types.Float64])
	case "f2i":
		x := argT(0)
		return mk(app(u.ufun("f2i", []Sort{SF64}, SInt), x.S), SInt).withType(types.Typ[types.Int])
	case "fzero":
		x := argT(0)
		return mk(app("fp.isZero", x.S), SBool)
	case "float":
		// float literal from an integer literal: float(0)
		if e.Args[0].Op == "int" {
			fl, _ := new(big.Float).SetInt(e.Args[0].Int).Float64()
			return mk(fpLit(fl), SF64).withType(types.Typ[types.Float64])
		}
		efail("float() takes an integer literal")
	case "ufun":
		efail("ufun is a declaration, not an expression")
	}
	// recursive spec function
	if sf, ok := vc.prog.contracts.specs[e.Name]; ok && sf.Rec {
		return env.recCall(sf, e)
	}
	// spec macro
	if sf, ok := vc.prog.contracts.specs[e.Name]; ok {
		if len(sf.Params) != len(e.Args) {
			efail("spec %s takes %d arguments", e.Name, len(sf.Params))
		}
		// evaluate arguments in the caller's environment, bind as variables
		n := *env
		n.vars = make(map[string]Term, len(env.vars)+len(sf.Params))
		for k, v := range env.vars {
			n.vars[k] = v
		}
		for i, p := range sf.Params {
			n.vars[p] = env.eval(e.Args[i])
		}
		n.depth = env.depth + 1
		if n.depth > 40 {
			efail("spec recursion too deep in %s", e.Name)
		}
		return n.eval(sf.Body)
	}
	// declared uninterpreted function
	if uf, ok := vc.prog.contracts.ufuns[e.Name]; ok {
		var args []string
		for i := range e.Args {
			a := argT(i)
			if i < len(uf.Args) && a.Sort != uf.Args[i] {
				efail("%s: argument %d has sort %s, want %s", e.Name, i+1, a.Sort, uf.Args[i])
			}
			args = append(args, a.S)
		}
		sym := uf.Name
		if uf.SMT != "" {
			sym = uf.SMT
		}
		u.ufun(sym, uf.Args, uf.Ret)
		for _, ax := range uf.Axioms {
			u.axiom(uf.Name+"."+ax[0], ax[1])
		}
		if len(args) == 0 {
			return mk(sym, uf.Ret)
		}
		return mk(app(sym, args...), uf.Ret)
	}
	efail("unknown function %s", e.Name)
	return Term{}
}

func (env *Env) specType(s string) (types.Type, Sort) {
	switch s {
	case "Int", "int":
		return types.Typ[types.Int], SInt
	case "Bool", "bool":
		return types.Typ[types.Bool], SBool
	case "Str", "string":
		return types.Typ[types.String], SStr
	}
	t := env.resolveType(s)
	return t, env.vc.u.sortOf(t)
}

// recCall: application of a recursive spec function.  The function is defined once per VC by an
// axiom quantified over its parameters and over the heap components its body reads.
func (env *Env) recCall(sf *SpecFn, e *Expr) Term {
	vc := env.vc
	if vc.recDefs == nil {
		vc.recDefs = map[string]*recDef{}
	}
	if len(e.Args) != len(sf.Params) {
		efail("%s takes %d arguments", sf.Name, len(sf.Params))
	}
	rd := vc.recDefs[sf.Name]
	if rd == nil {
		rd = &recDef{sym: "rec_" + sf.Name}
		rd.retT, rd.ret = env.specType(sf.Ret)
		vc.recDefs[sf.Name] = rd
		// pass 1: discover the components read
		evalBody := func() (Term, map[string]bool) {
			fh := &Heap{m: map[string]string{}, formal: map[string]bool{}}
			n := &Env{vc: vc, vars: map[string]Term{}, cur: fh, old: fh, pkg: env.pkg, depth: 50}
			for i, p := range sf.Params {
				t, s := env.specType(sf.PTypes[i])
				n.vars[p] = mk("a!"+p, s).withType(t)
			}
			return n.eval(sf.Body), fh.formal
		}
		rd.busy = true
		_, used := evalBody()
		rd.busy = false
		rd.comps = sortedKeys(used)
		// pass 2: the defining axiom
		body, _ := evalBody()
		var binders, argsyms []string
		var sorts []Sort
		for _, c := range rd.comps {
			binders = append(binders, fmt.Sprintf("(H!%s %s)", c, vc.compSort[c]))
			argsyms = append(argsyms, "H!"+c)
			sorts = append(sorts, vc.compSort[c])
		}
		for i, p := range sf.Params {
			_, s := env.specType(sf.PTypes[i])
			binders = append(binders, fmt.Sprintf("(a!%s %s)", p, s))
			argsyms = append(argsyms, "a!"+p)
			sorts = append(sorts, s)
		}
		vc.u.ufun(rd.sym, sorts, rd.ret)
		lhs := app(rd.sym, argsyms...)
		vc.u.axiom("rec."+sf.Name, fmt.Sprintf("(assert (forall (%s) (! (= %s %s) :pattern (%s))))", strings.Join(binders, " "), lhs, body.S, lhs))
	}
	var args []string
	if rd.busy {
		// discovery pass: the arguments are evaluated for their reads, the result is a placeholder
		for i := range e.Args {
			env.eval(e.Args[i])
		}
		return mk("placeholder!rec", rd.ret).withType(rd.retT)
	}
	for _, c := range rd.comps {
		args = append(args, vc.get(env.heap(), c))
	}
	for i := range e.Args {
		a := env.eval(e.Args[i])
		_, s := env.specType(sf.PTypes[i])
		if a.Sort != s {
			efail("%s: argument %d has sort %s, want %s", sf.Name, i+1, a.Sort, s)
		}
		args = append(args, a.S)
	}
	return mk(app(rd.sym, args...), rd.ret).withType(rd.retT)
}

// eltPatterns: triggers for a quantifier over slice positions: every read (elt_X row off v) of the
// bound position v, and the equivalent array read (select row (+ off v)), so that the fact is also
// instantiated for reads of a row that was updated with store.
func eltPatterns(body, v string) string {
	root := parseSx(body)
	if root == nil {
		return ""
	}
	root.annotate(map[string]bool{v: true})
	seen := map[string]bool{}
	var pats []string
	var walk func(n *sx)
	walk = func(n *sx) {
		if len(n.kids) == 4 && n.kids[0].kids == nil && strings.HasPrefix(n.kids[0].atom, "elt_") && n.kids[3].kids == nil && n.kids[3].atom == v && !n.kids[1].bound && !n.kids[2].bound {
			if !seen[n.str] {
				seen[n.str] = true
				pats = append(pats, fmt.Sprintf(":pattern (%s) :pattern ((select %s (+ %s %s)))", n.str, n.kids[1].str, n.kids[2].str, v))
			}
		}
		for _, k := range n.kids {
			walk(k)
		}
	}
	walk(root)
	if len(pats) == 0 || len(pats) > 3 {
		return ""
	}
	return strings.Join(pats, " ")
}
