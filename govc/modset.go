package main

// Inferred frame: which heap components a function may write, at pre-existing
// objects (Old) or only at objects it allocates itself (Fresh).

import (
	"fmt"
	"go/types"

	"golang.org/x/tools/go/ssa"
)

type ModSet struct {
	Old      map[string]bool
	Fresh    map[string]bool
	Sorts    map[string]Sort
	Types    map[string]types.Type
	All      bool
	FreshAll bool // may allocate objects of any type (writes nothing that existed before)
}

func newModSet() *ModSet {
	return &ModSet{Old: map[string]bool{}, Fresh: map[string]bool{}, Sorts: map[string]Sort{}, Types: map[string]types.Type{}}
}

func (m *ModSet) add(o *ModSet, asFresh bool) bool {
	changed := false
	if o.All && !m.All {
		m.All = true
		changed = true
	}
	if o.FreshAll && !m.FreshAll {
		m.FreshAll = true
		changed = true
	}
	for c := range o.Old {
		if !m.Old[c] {
			m.Old[c] = true
			changed = true
		}
	}
	for c := range o.Fresh {
		if !m.Fresh[c] {
			m.Fresh[c] = true
			changed = true
		}
	}
	for c, s := range o.Sorts {
		m.Sorts[c] = s
	}
	for c, t := range o.Types {
		m.Types[c] = t
	}
	return changed
}

// a scratch VC is used to compute component names/sorts from types
func (p *Program) scratch() *VC {
	if p.scratchVC == nil {
		p.scratchVC = &VC{prog: p, u: newUniverse(p), compSort: map[string]Sort{}, compType: map[string]types.Type{}}
	}
	return p.scratchVC
}

func (p *Program) computeModSets() {
	sv := p.scratch()
	local := map[*ssa.Function]*ModSet{}
	calls := map[*ssa.Function][]*ssa.Function{}
	for _, f := range p.funcs {
		ms := newModSet()
		local[f] = ms
		for _, b := range f.Blocks {
			for _, in := range b.Instrs {
				p.localMods(sv, f, in, ms)
				if ci, ok := in.(ssa.CallInstruction); ok {
					for _, callee := range p.callees(ci.Common()) {
						calls[f] = append(calls[f], callee)
					}
					if p.isUnknownCall(ci.Common()) {
						ms.All = true
					}
				}
			}
		}
	}
	for f, ms := range local {
		n := newModSet()
		n.add(ms, false)
		p.modsets[f] = n
	}
	for changed := true; changed; {
		changed = false
		for f := range local {
			for _, cal := range calls[f] {
				if cm, ok := p.modsets[cal]; ok {
					if p.modsets[f].add(cm, false) {
						changed = true
					}
				}
			}
		}
	}
}

func (p *Program) modset(f *ssa.Function) *ModSet {
	if ms, ok := p.modsets[f]; ok {
		return ms
	}
	return newModSet()
}

// module callees of a call (static, or all implementers of an invoke)
func (p *Program) callees(c *ssa.CallCommon) []*ssa.Function {
	if c.IsInvoke() {
		it := c.Value.Type().Underlying().(*types.Interface)
		var out []*ssa.Function
		for _, im := range p.implementers(it, c.Method.Name()) {
			out = append(out, im.Fn)
		}
		return out
	}
	switch v := c.Value.(type) {
	case *ssa.Function:
		if v.Pkg != nil && isModulePkg(v.Pkg.Pkg) {
			return []*ssa.Function{v}
		}
	case *ssa.MakeClosure:
		return []*ssa.Function{v.Fn.(*ssa.Function)}
	}
	return nil
}

// calls whose effect on the heap is not known: function values without typed contract,
// unknown externals taking references
func (p *Program) isUnknownCall(c *ssa.CallCommon) bool {
	if c.IsInvoke() {
		it := c.Value.Type().Underlying().(*types.Interface)
		if len(p.implementers(it, c.Method.Name())) == 0 {
			return externalMethodHavoc(c)
		}
		return false
	}
	switch v := c.Value.(type) {
	case *ssa.Builtin:
		return false
	case *ssa.Function:
		if v.Pkg != nil && isModulePkg(v.Pkg.Pkg) {
			return false
		}
		return externalSpec(v).HavocAll
	case *ssa.MakeClosure:
		return false
	default:
		tc := p.typedContract(c.Value.Type())
		return tc == nil
	}
}

func (p *Program) localMods(sv *VC, f *ssa.Function, in ssa.Instruction, ms *ModSet) {
	note := func(comp string, fresh bool) {
		ms.Sorts[comp] = sv.compSort[comp]
		if t, ok := sv.compType[comp]; ok {
			ms.Types[comp] = t
		}
		if fresh {
			ms.Fresh[comp] = true
		} else {
			ms.Old[comp] = true
		}
	}
	switch x := in.(type) {
	case *ssa.Store:
		p.addrMods(sv, x.Addr, x.Val.Type(), note)
		if fa, ok := x.Addr.(*ssa.FieldAddr); ok {
			st := fa.X.Type().Underlying().(*types.Pointer).Elem()
			if isModuleStruct(st) {
				c, _, _ := sv.fieldCompOf(st, fa.Field)
				if name, ok := p.contracts.countStores[c]; ok {
					sv.compDecl("Gcnt_"+name, SInt)
					note("Gcnt_"+name, false)
				}
			}
		}
	case *ssa.Alloc:
		// zero-initialisation of the fresh object
		et := x.Type().Underlying().(*types.Pointer).Elem()
		p.typeComps(sv, et, func(c string) { note(c, true) })
	case *ssa.MakeSlice:
		c, _ := sv.elemComp(x.Type().Underlying().(*types.Slice).Elem())
		note(c, true)
	case *ssa.MakeMap:
		has, val, _, _ := sv.mapComps(x.Type().Underlying().(*types.Map))
		note(has, true)
		note(val, true)
		note("Msize", true)
	case *ssa.MapUpdate:
		has, val, _, _ := sv.mapComps(x.Map.Type().Underlying().(*types.Map))
		mm, fresh := x.Map.(*ssa.MakeMap)
		fresh = fresh && inFreshScope(mm)
		note(has, fresh)
		note(val, fresh)
		note("Msize", fresh)
	case *ssa.Convert:
		if sl, ok := x.Type().Underlying().(*types.Slice); ok {
			c, _ := sv.elemComp(sl.Elem())
			note(c, true)
		}
	case ssa.CallInstruction:
		c := x.Common()
		if b, ok := c.Value.(*ssa.Builtin); ok {
			switch b.Name() {
			case "append", "copy":
				cmp, _ := sv.elemComp(c.Args[0].Type().Underlying().(*types.Slice).Elem())
				note(cmp, freshSlice(c.Args[0], map[ssa.Value]bool{}))
			case "delete":
				has, val, _, _ := sv.mapComps(c.Args[0].Type().Underlying().(*types.Map))
				note(has, false)
				note(val, false)
				note("Msize", false)
			}
			return
		}
		if fn, ok := c.Value.(*ssa.Function); ok && !c.IsInvoke() && (fn.Pkg == nil || !isModulePkg(fn.Pkg.Pkg)) {
			if fn.String() == "fmt.Errorf" || fn.String() == "errors.New" {
				sv.compDecl("Gerr_n", SInt)
				note("Gerr_n", false)
			}
			if fn.String() == "hash/fnv.New64a" {
				sv.compDecl("Ghash_data", "(Array Int Str)")
				note("Ghash_data", false)
			}
			es := externalSpec(fn)
			if es.HavocArgs {
				for _, a := range c.Args {
					p.argMods(sv, a, note)
				}
			}
		}
		if c.IsInvoke() {
			it := c.Value.Type().Underlying().(*types.Interface)
			if len(p.implementers(it, c.Method.Name())) == 0 && types.TypeString(c.Value.Type(), nil) == "hash.Hash64" {
				sv.compDecl("Ghash_data", "(Array Int Str)")
				note("Ghash_data", false)
			}
		}
		if _, ok := c.Value.(*ssa.Function); !ok && !c.IsInvoke() {
			if _, isB := c.Value.(*ssa.Builtin); !isB {
				sv.callLogDecl()
				note("Gcalls_n", false)
				note("Gcalls_fn", false)
				note("Gcalls_args", false)
			}
			if _, isClosure := c.Value.(*ssa.MakeClosure); !isClosure {
				if tc := p.typedContract(c.Value.Type()); tc != nil {
					tm := p.typedModSet(sv, tc)
					ms.add(tm, false)
				}
			}
		}
	}
}

// components written when a reference-typed argument is handed to an external function that may write through it
func (p *Program) argMods(sv *VC, a ssa.Value, note func(string, bool)) {
	switch t := a.Type().Underlying().(type) {
	case *types.Pointer:
		p.addrMods(sv, a, t.Elem(), note)
	case *types.Slice:
		c, _ := sv.elemComp(t.Elem())
		note(c, false)
	}
}

func (p *Program) typeComps(sv *VC, et types.Type, f func(string)) {
	switch {
	case isModuleStruct(et):
		st := et.Underlying().(*types.Struct)
		for i := 0; i < st.NumFields(); i++ {
			c, _, _ := sv.fieldCompOf(et, i)
			f(c)
		}
	default:
		if at, ok := et.Underlying().(*types.Array); ok {
			c, _ := sv.elemComp(at.Elem())
			f(c)
			return
		}
		c, _ := sv.cellComp(et)
		f(c)
	}
}

func (p *Program) addrMods(sv *VC, addr ssa.Value, valT types.Type, note func(string, bool)) {
	switch a := addr.(type) {
	case *ssa.FieldAddr:
		// find the outermost object
		base := a
		for {
			if inner, ok := base.X.(*ssa.FieldAddr); ok {
				st := inner.X.Type().Underlying().(*types.Pointer).Elem()
				if isModuleStruct(st) {
					base = inner
					continue
				}
			}
			break
		}
		st := base.X.Type().Underlying().(*types.Pointer).Elem()
		if !isModuleStruct(st) {
			return
		}
		if ia, ok := base.X.(*ssa.IndexAddr); ok {
			// field of a struct stored in a slice element
			p.addrMods(sv, ia, nil, note)
			return
		}
		c, _, _ := sv.fieldCompOf(st, base.Field)
		note(c, isFreshAlloc(base.X))
	case *ssa.IndexAddr:
		var et types.Type
		fresh := false
		switch t := a.X.Type().Underlying().(type) {
		case *types.Slice:
			et = t.Elem()
			fresh = freshSlice(a.X, map[ssa.Value]bool{})
		case *types.Pointer:
			et = t.Elem().Underlying().(*types.Array).Elem()
			fresh = isFreshAlloc(a.X)
		}
		c, _ := sv.elemComp(et)
		note(c, fresh)
	case *ssa.Global:
		et := a.Type().(*types.Pointer).Elem()
		c := globalComp(a)
		sv.compDecl(c, sv.u.sortOf(et))
		sv.compType[c] = et
		note(c, false)
	case *ssa.Alloc:
		et := a.Type().Underlying().(*types.Pointer).Elem()
		fr := inFreshScope(a)
		p.typeComps(sv, et, func(c string) { note(c, fr) })
	default:
		// store through a pointer value
		et := addr.Type().Underlying().(*types.Pointer).Elem()
		p.typeComps(sv, et, func(c string) { note(c, false) })
	}
}

// instrMods: components an instruction may modify (used for loop havoc), in the naming of vc
func (p *Program) instrMods(vc *VC, in ssa.Instruction) (*ModSet, bool) {
	ms := newModSet()
	p.localMods(vc, vc.fn, in, ms)
	all := false
	if ci, ok := in.(ssa.CallInstruction); ok {
		for _, callee := range p.callees(ci.Common()) {
			cm := p.modset(callee)
			vc.declareModSet(cm)
			ms.add(cm, false)
		}
		if p.isUnknownCall(ci.Common()) {
			all = true
		}
	}
	return ms, all || ms.All
}

// typed contracts -------------------------------------------------------------

func (p *Program) typedContract(t types.Type) *Contract {
	if n, ok := types.Unalias(t).(*types.Named); ok {
		if c := p.contracts.typed[n.Obj().Name()]; c != nil {
			return c
		}
	}
	sig, ok := t.Underlying().(*types.Signature)
	if !ok {
		return nil
	}
	key := sigKey(sig)
	for _, c := range p.contracts.typed {
		if c.Props["signature"] == key {
			return c
		}
	}
	return nil
}

func sigKey(sig *types.Signature) string {
	q := func(p *types.Package) string { return p.Name() }
	s := "func("
	for i := 0; i < sig.Params().Len(); i++ {
		if i > 0 {
			s += ","
		}
		s += types.TypeString(sig.Params().At(i).Type(), q)
	}
	s += ")"
	for i := 0; i < sig.Results().Len(); i++ {
		if i == 0 {
			s += " "
		} else {
			s += ","
		}
		s += types.TypeString(sig.Results().At(i).Type(), q)
	}
	return s
}

// the modset of a typed contract: its explicit "modifies comp(X)" items; no clause = nothing
func (p *Program) typedModSet(vc *VC, tc *Contract) *ModSet {
	ms := newModSet()
	if !tc.HasModifies {
		ms.All = true
		return ms
	}
	if len(tc.Modifies) == 0 {
		// "modifies nothing": may allocate anything, writes nothing that existed before
		ms.FreshAll = true
	}
	for _, e := range tc.Modifies {
		switch {
		case e.Op == "call" && e.Name == "comp" && len(e.Args) == 1 && e.Args[0].Op == "ident":
			c := e.Args[0].Name
			if s, ok := p.scratch().compSort[c]; ok {
				ms.Sorts[c] = s
			} else if s, ok := vc.compSort[c]; ok {
				ms.Sorts[c] = s
			} else {
				// unknown component name: resolved lazily when a function touching it is verified
				continue
			}
			ms.Old[c] = true
		case e.Op == "call" && e.Name == "fresh":
			ms.FreshAll = true
		case e.Op == "call" && e.Name == "pkgfields" && len(e.Args) == 1 && e.Args[0].Op == "ident":
			// every field of every struct type declared in the named package
			sv := p.scratch()
			for _, nt := range p.allNamed {
				if nt.Obj().Pkg().Name() != e.Args[0].Name {
					continue
				}
				if st, ok := nt.Underlying().(*types.Struct); ok {
					for i := 0; i < st.NumFields(); i++ {
						c, _, _ := sv.fieldCompOf(nt, i)
						ms.Old[c] = true
						ms.Sorts[c] = sv.compSort[c]
						ms.Types[c] = sv.compType[c]
					}
				}
			}
		case e.Op == "call" && e.Name == "objects":
			// payloads of all object types
			for _, nt := range p.allNamed {
				if nt.Obj().Pkg().Name() != "object" {
					continue
				}
				if st, ok := nt.Underlying().(*types.Struct); ok {
					for i := 0; i < st.NumFields(); i++ {
						c, _, _ := p.scratch().fieldCompOf(nt, i)
						ms.Old[c] = true
						ms.Sorts[c] = p.scratch().compSort[c]
						ms.Types[c] = p.scratch().compType[c]
					}
				}
			}
			for _, c := range []string{"E_Iface", "Msize"} {
				if s, ok := p.scratch().compSort[c]; ok {
					ms.Old[c] = true
					ms.Sorts[c] = s
				}
			}
		default:
			panic(evalError{fmt.Sprintf("typed contract %s: modifies item %s not supported", tc.Typed, e.String())})
		}
	}
	return ms
}

// freshSlice: is the backing array of slice value v certainly allocated by the current function
// activation?  (make, composite literal, append to such a slice, or a phi of such values; a nil
// slice counts: appending to it allocates.)
// freshScope: when set (while the effects of a loop body are classified), "fresh" means allocated
// inside these blocks - an object allocated earlier in the function exists when the loop is entered
// and a write to it is visible after the loop.
var freshScope map[*ssa.BasicBlock]bool

func inFreshScope(in ssa.Instruction) bool {
	return freshScope == nil || freshScope[in.Block()]
}

func isFreshAlloc(v ssa.Value) bool {
	al, ok := v.(*ssa.Alloc)
	return ok && inFreshScope(al)
}

func freshSlice(v ssa.Value, seen map[ssa.Value]bool) bool {
	if seen[v] {
		return true // a cycle through phis adds no other source
	}
	seen[v] = true
	switch x := v.(type) {
	case *ssa.MakeSlice:
		return inFreshScope(x)
	case *ssa.Const:
		return x.Value == nil
	case *ssa.Slice:
		if al, ok := x.X.(*ssa.Alloc); ok {
			return inFreshScope(al)
		}
		if _, ok := x.X.Type().Underlying().(*types.Slice); ok {
			return freshSlice(x.X, seen)
		}
		return false
	case *ssa.Phi:
		for _, e := range x.Edges {
			if !freshSlice(e, seen) {
				return false
			}
		}
		return true
	case *ssa.Call:
		if b, ok := x.Call.Value.(*ssa.Builtin); ok && b.Name() == "append" {
			return freshSlice(x.Call.Args[0], seen)
		}
		// slices returned by pure standard-library functions (strings.Split ...) are newly allocated
		if fn, ok := x.Call.Value.(*ssa.Function); ok && fn.Pkg != nil && purePkgs[fn.Pkg.Pkg.Path()] && fn.Signature.Recv() == nil {
			return inFreshScope(x)
		}
		return false
	case *ssa.Convert:
		// []rune(s), []byte(s)
		_, fromString := x.X.Type().Underlying().(*types.Basic)
		return fromString && inFreshScope(x)
	case *ssa.ChangeType:
		return freshSlice(x.X, seen)
	case *ssa.UnOp:
		// load of a local slice variable whose address is taken: every store to it must be fresh
		if al, ok := x.X.(*ssa.Alloc); ok {
			for _, ref := range *al.Referrers() {
				if st, ok := ref.(*ssa.Store); ok && st.Addr == al {
					if !freshSlice(st.Val, seen) {
						return false
					}
				} else if _, isLoad := ref.(*ssa.UnOp); !isLoad {
					if _, isDbg := ref.(*ssa.DebugRef); !isDbg {
						return false
					}
				}
			}
			return true
		}
		return false
	}
	return false
}

// unsharedLocalSlice: v is a slice built in this function (make / literal / nil / append chain) and
// no value of that chain is ever stored, passed to a call, or re-sliced: the only way its backing
// array is reached is through the latest value of the chain.  For such a slice an append that writes
// in place and one that reallocates are indistinguishable, so append may be modelled as reallocating.
func unsharedLocalSlice(v ssa.Value) bool {
	if !freshSlice(v, map[ssa.Value]bool{}) {
		return false
	}
	seen := map[ssa.Value]bool{}
	var chain func(x ssa.Value) bool
	chain = func(x ssa.Value) bool {
		if seen[x] {
			return true
		}
		seen[x] = true
		switch y := x.(type) {
		case *ssa.Const:
			return true
		case *ssa.MakeSlice:
		case *ssa.Slice:
			if _, ok := y.X.(*ssa.Alloc); !ok {
				return false
			}
			// the array of a composite literal: only this slice may refer to it
			for _, r := range *y.X.Referrers() {
				switch rr := r.(type) {
				case *ssa.Slice, *ssa.DebugRef:
				case *ssa.IndexAddr:
					for _, r2 := range *rr.Referrers() {
						if _, isStore := r2.(*ssa.Store); !isStore {
							return false
						}
					}
				default:
					return false
				}
			}
		case *ssa.Phi:
			for _, e := range y.Edges {
				if !chain(e) {
					return false
				}
			}
		case *ssa.Call:
			b, ok := y.Call.Value.(*ssa.Builtin)
			if !ok || b.Name() != "append" {
				return false
			}
			if !chain(y.Call.Args[0]) {
				return false
			}
		default:
			return false
		}
		// uses of this value
		inst, ok := x.(ssa.Instruction)
		if !ok {
			return true
		}
		_ = inst
		if refs := x.Referrers(); refs != nil {
			for _, r := range *refs {
				switch rr := r.(type) {
				case *ssa.Phi, *ssa.DebugRef:
					if ph, ok := rr.(*ssa.Phi); ok && !chain(ph) {
						return false
					}
				case *ssa.IndexAddr:
					// element reads / writes through the current value
				case *ssa.Call:
					b, ok := rr.Call.Value.(*ssa.Builtin)
					if !ok {
						return false
					}
					switch b.Name() {
					case "len", "cap":
					case "append":
						if rr.Call.Args[0] != x {
							return false // appended *to another slice*: its elements are copied, fine only for non-reference use; be conservative
						}
						if !chain(rr) {
							return false
						}
					default:
						return false
					}
				default:
					return false
				}
			}
		}
		return true
	}
	return chain(v)
}
