#!/bin/bash
# all_checks.sh [tier]: every claimed property on /repo's current tree; prints one line per property.
tier=${1:-quick}
rc=0
for id in $(jq -r '.checks[].property_id' /verif/MANIFEST.json); do
  s=$(date +%s)
  /verif/bin/govc check $id --tier $tier > /tmp/allchk-$id.txt 2>&1; r=$?
  echo "$id exit=$r $(($(date +%s)-s))s $(grep -c '^VIOLATION' /tmp/allchk-$id.txt) violations, $(grep -c '^KNOWN-FINDING' /tmp/allchk-$id.txt) known"
  [ $r = 0 ] || rc=1
done
exit $rc
