#!/usr/bin/env python3
"""Writes the operator-table part of /repo/vm/contracts_verif.go (appendix B.2 of DESIGN.md).
The cells are transcribed from the property statement C01/C05; this script only avoids typing
the same shape 60 times.  Its output is committed in /repo; the verifier never runs it."""
import sys

out = []
def w(s=""): out.append(s)

arith = [("Add", "+"), ("Sub", "-"), ("Mul", "*")]
cmps = [("Less", "<"), ("LessEqual", "<="), ("Greater", ">"), ("GreaterEqual", ">="), ("Equal", "=="), ("NotEqual", "!=")]
twelve = ["Add", "Sub", "Mul", "Div", "Mod", "Power"] + [c for c, _ in cmps]

def known(ops):
    return " && ".join("op != code.Op%s" % o for o in ops)

# ---------------------------------------------------------------- int x int
w("//@ func (vm *VM) evalIntegerInfixExpression(op code.Opcode, left object.Object, right object.Object) (err error)")
w("//@   requires vmOK(vm) && stackValid(vm) && isInt(left) && isInt(right) && ptr(left) != 0 && ptr(right) != 0")
w("//@   modifies vm.stack.entries, vm.stack.entries[*]")
for n, o in arith:
    w("//@   ensures @C01 int.%s: op == code.Op%s ==> err == nil && pushed1(vm) && topInt(vm, wrap64(old(ival(left)) %s old(ival(right))))" % (n.lower(), n, o))
w("//@   ensures @C01 int.div: op == code.OpDiv && old(ival(right)) != 0 ==> err == nil && pushed1(vm) && topInt(vm, wrap64(old(ival(left)) / old(ival(right))))")
w("//@   ensures @C01 int.div0: op == code.OpDiv && old(ival(right)) == 0 ==> err != nil && stackSame(vm)")
w("//@   ensures @C01 int.mod: op == code.OpMod && old(ival(right)) != 0 ==> err == nil && pushed1(vm) && topInt(vm, old(ival(left)) % old(ival(right)))")
w("//@   ensures @C01 @pinned int.power: op == code.OpPower ==> err == nil && pushed1(vm) && topInt(vm, f2i(pow(i2f(old(ival(left))), i2f(old(ival(right))))))")
for n, o in cmps:
    w("//@   ensures @C01 int.%s: op == code.Op%s ==> err == nil && pushed1(vm) && topBool(vm, old(ival(left)) %s old(ival(right)))" % (n.lower(), n, o))
w("//@   ensures @C01 int.badop: %s ==> err != nil && stackSame(vm)" % known(twelve))
w("//@   ensures int.valid: stackValid(vm)")
w("//@   panics when op == code.OpMod && ival(right) == 0")
w()

# ---------------------------------------------------------------- float mixes
def floatfn(name, lexpr, rexpr, lt, rt, tag):
    w("//@ func (vm *VM) %s(op code.Opcode, left object.Object, right object.Object) (err error)" % name)
    w("//@   requires vmOK(vm) && stackValid(vm) && %s(left) && %s(right) && ptr(left) != 0 && ptr(right) != 0" % (lt, rt))
    w("//@   modifies vm.stack.entries, vm.stack.entries[*]")
    L, R = "old(%s)" % lexpr, "old(%s)" % rexpr
    for n, o in arith:
        w("//@   ensures @C01 %s.%s: op == code.Op%s ==> err == nil && pushed1(vm) && topFloat(vm, %s %s %s)" % (tag, n.lower(), n, L, o, R))
    w("//@   ensures @C01 %s.div: op == code.OpDiv && !fzero(%s) ==> err == nil && pushed1(vm) && topFloat(vm, %s / %s)" % (tag, R, L, R))
    w("//@   ensures @C01 %s.div0: op == code.OpDiv && fzero(%s) ==> err != nil && stackSame(vm)" % (tag, R))
    w("//@   ensures @C01 @pinned %s.mod: op == code.OpMod && f2i(%s) != 0 ==> err == nil && pushed1(vm) && topFloat(vm, i2f(f2i(%s) %% f2i(%s)))" % (tag, R, L, R))
    w("//@   ensures @C01 @pinned %s.power: op == code.OpPower ==> err == nil && pushed1(vm) && topFloat(vm, pow(%s, %s))" % (tag, L, R))
    for n, o in cmps:
        w("//@   ensures @C01 %s.%s: op == code.Op%s ==> err == nil && pushed1(vm) && topBool(vm, %s %s %s)" % (tag, n.lower(), n, L, o, R))
    w("//@   ensures @C01 %s.badop: %s ==> err != nil && stackSame(vm)" % (tag, known(twelve)))
    w("//@   ensures %s.valid: stackValid(vm)" % tag)
    w("//@   panics when op == code.OpMod && f2i(%s) == 0" % rexpr)
    w()

floatfn("evalFloatInfixExpression", "fval(left)", "fval(right)", "isFloat", "isFloat", "ff")
floatfn("evalFloatIntegerInfixExpression", "fval(left)", "i2f(ival(right))", "isFloat", "isInt", "fi")
floatfn("evalIntegerFloatInfixExpression", "i2f(ival(left))", "fval(right)", "isInt", "isFloat", "if")

# ---------------------------------------------------------------- string x string
w("//@ func (vm *VM) evalStringInfixExpression(op code.Opcode, left object.Object, right object.Object) (err error)")
w("//@   requires vmOK(vm) && stackValid(vm) && isStr(left) && isStr(right) && ptr(left) != 0 && ptr(right) != 0")
w("//@   modifies vm.stack.entries, vm.stack.entries[*]")
for n, o in cmps:
    w("//@   ensures @C01 str.%s: op == code.Op%s ==> err == nil && pushed1(vm) && topBool(vm, old(sval(left)) %s old(sval(right)))" % (n.lower(), n, o))
w("//@   ensures @C01 str.add: op == code.OpAdd ==> err == nil && pushed1(vm) && topStr(vm, old(sval(left)) + old(sval(right)))")
w("//@   ensures @C01 @C16 str.in: op == code.OpArrayIn ==> err == nil && pushed1(vm) && topBool(vm, strContains(old(sval(right)), old(sval(left))))")
w("//@   ensures @C01 str.badop: %s ==> err != nil && stackSame(vm)" % known([c for c, _ in cmps] + ["Add", "ArrayIn"]))
w("//@   ensures str.valid: stackValid(vm)")
w("//@   panics never")
w()
print("\n".join(out))
