#!/usr/bin/env python3
"""Writes the operator-table part of /repo/vm/contracts_verif.go (appendix B.2 of DESIGN.md).
The cells are transcribed from the property statement C01/C05; this script only avoids typing
the same shape 60 times.  Its output is committed in /repo; the verifier never runs it."""
import sys

out = []
def w(s=""): out.append(s)

arith = [("Add", "+"), ("Sub", "-"), ("Mul", "*")]
cmps = [("Less", "<"), ("LessEqual", "<="), ("Greater", ">"), ("GreaterEqual", ">="), ("Equal", "=="), ("NotEqual", "!=")]
twelve = ["Add", "Sub", "Mul", "Div", "Mod", "Power"] + [c for c, _ in cmps]

def known(ops):
    return " && ".join("op != code.Op%s" % o for o in ops)

# ---------------------------------------------------------------- int x int
w("//@ func (vm *VM) evalIntegerInfixExpression(op code.Opcode, left object.Object, right object.Object) (err error)")
w("//@   requires vmOK(vm) && isInt(left) && isInt(right) && ptr(left) != 0 && ptr(right) != 0")
w("//@   modifies vm.stack.entries, vm.stack.entries[*]")
for n, o in arith:
    w("//@   ensures @C01 int.%s: op == code.Op%s ==> err == nil && pushed1(vm) && topInt(vm, wrap64(old(ival(left)) %s old(ival(right))))" % (n.lower(), n, o))
w("//@   ensures @C01 int.div: op == code.OpDiv && old(ival(right)) != 0 ==> err == nil && pushed1(vm) && topInt(vm, wrap64(old(ival(left)) / old(ival(right))))")
w("//@   ensures @C01 int.div0: op == code.OpDiv && old(ival(right)) == 0 ==> err != nil && stackSame(vm)")
w("//@   ensures @C01 int.mod: op == code.OpMod && old(ival(right)) != 0 ==> err == nil && pushed1(vm) && topInt(vm, old(ival(left)) % old(ival(right)))")
w("//@   ensures @C01 @pinned int.power: op == code.OpPower ==> err == nil && pushed1(vm) && topInt(vm, f2i(pow(i2f(old(ival(left))), i2f(old(ival(right))))))")
for n, o in cmps:
    w("//@   ensures @C01 int.%s: op == code.Op%s ==> err == nil && pushed1(vm) && topBool(vm, old(ival(left)) %s old(ival(right)))" % (n.lower(), n, o))
w("//@   ensures @C01 int.badop: %s ==> err != nil && stackSame(vm)" % known(twelve))
w("//@   ensures int.effect: (err == nil ==> pushed1(vm)) && (err != nil ==> stackSame(vm))")
w("//@   panics when op == code.OpMod && ival(right) == 0")
w()

# ---------------------------------------------------------------- float mixes
def floatfn(name, lexpr, rexpr, lt, rt, tag):
    w("//@ func (vm *VM) %s(op code.Opcode, left object.Object, right object.Object) (err error)" % name)
    w("//@   requires vmOK(vm) && %s(left) && %s(right) && ptr(left) != 0 && ptr(right) != 0" % (lt, rt))
    w("//@   modifies vm.stack.entries, vm.stack.entries[*]")
    L, R = "old(%s)" % lexpr, "old(%s)" % rexpr
    for n, o in arith:
        w("//@   ensures @C01 %s.%s: op == code.Op%s ==> err == nil && pushed1(vm) && topFloat(vm, %s %s %s)" % (tag, n.lower(), n, L, o, R))
    w("//@   ensures @C01 %s.div: op == code.OpDiv && !fzero(%s) ==> err == nil && pushed1(vm) && topFloat(vm, %s / %s)" % (tag, R, L, R))
    w("//@   ensures @C01 %s.div0: op == code.OpDiv && fzero(%s) ==> err != nil && stackSame(vm)" % (tag, R))
    w("//@   ensures @C01 @pinned %s.mod: op == code.OpMod && f2i(%s) != 0 ==> err == nil && pushed1(vm) && topFloat(vm, i2f(f2i(%s) %% f2i(%s)))" % (tag, R, L, R))
    w("//@   ensures @C01 @pinned %s.power: op == code.OpPower ==> err == nil && pushed1(vm) && topFloat(vm, pow(%s, %s))" % (tag, L, R))
    for n, o in cmps:
        w("//@   ensures @C01 %s.%s: op == code.Op%s ==> err == nil && pushed1(vm) && topBool(vm, %s %s %s)" % (tag, n.lower(), n, L, o, R))
    w("//@   ensures @C01 %s.badop: %s ==> err != nil && stackSame(vm)" % (tag, known(twelve)))
    w("//@   ensures %s.effect: (err == nil ==> pushed1(vm)) && (err != nil ==> stackSame(vm))" % tag)
    w("//@   panics when op == code.OpMod && f2i(%s) == 0" % rexpr)
    w()

floatfn("evalFloatInfixExpression", "fval(left)", "fval(right)", "isFloat", "isFloat", "ff")
floatfn("evalFloatIntegerInfixExpression", "fval(left)", "i2f(ival(right))", "isFloat", "isInt", "fi")
floatfn("evalIntegerFloatInfixExpression", "i2f(ival(left))", "fval(right)", "isInt", "isFloat", "if")

# ---------------------------------------------------------------- string x string
w("//@ func (vm *VM) evalStringInfixExpression(op code.Opcode, left object.Object, right object.Object) (err error)")
w("//@   requires vmOK(vm) && isStr(left) && isStr(right) && ptr(left) != 0 && ptr(right) != 0")
w("//@   modifies vm.stack.entries, vm.stack.entries[*]")
for n, o in cmps:
    w("//@   ensures @C01 str.%s: op == code.Op%s ==> err == nil && pushed1(vm) && topBool(vm, old(sval(left)) %s old(sval(right)))" % (n.lower(), n, o))
w("//@   ensures @C01 str.add: op == code.OpAdd ==> err == nil && pushed1(vm) && topStr(vm, old(sval(left)) + old(sval(right)))")
w("//@   ensures @C01 @C16 str.in: op == code.OpArrayIn ==> err == nil && pushed1(vm) && topBool(vm, strContains(old(sval(right)), old(sval(left))))")
w("//@   ensures str.effect: (err == nil ==> pushed1(vm)) && (err != nil ==> stackSame(vm))")
w("//@   ensures @C01 str.badop: %s ==> err != nil && stackSame(vm)" % known([c for c, _ in cmps] + ["Add", "ArrayIn"]))
w("//@   panics never")
w()
if len(sys.argv) == 1:
    print("\n".join(out))

# ================================================================ executeBinaryOperation
def binop():
    out.clear()
    D2 = "old(depth(vm)) >= 2"
    L, R = "T2(vm)", "T1(vm)"
    w("//@ func (vm *VM) executeBinaryOperation(op code.Opcode) (err error)")
    w("//@   requires vmOK(vm)")
    w("//@   modifies vm.stack.entries, vm.stack.entries[*]")
    ok = "err == nil && replaced2(vm)"
    notLogic = "op != code.OpAnd && op != code.OpOr"
    II = "%s && isInt(%s) && isInt(%s)" % (D2, L, R)
    for n, o in arith:
        w("//@   ensures @C01 bin.int.%s: %s && op == code.Op%s ==> %s && topInt(vm, wrap64(old(ival(%s)) %s old(ival(%s))))" % (n.lower(), II, n, ok, L, o, R))
    w("//@   ensures @C01 bin.int.div: %s && op == code.OpDiv && old(ival(%s)) != 0 ==> %s && topInt(vm, wrap64(old(ival(%s)) / old(ival(%s))))" % (II, R, ok, L, R))
    w("//@   ensures @C01 bin.int.div0: %s && op == code.OpDiv && old(ival(%s)) == 0 ==> err != nil" % (II, R))
    w("//@   ensures @C01 bin.int.mod: %s && op == code.OpMod && old(ival(%s)) != 0 ==> %s && topInt(vm, old(ival(%s)) %% old(ival(%s)))" % (II, R, ok, L, R))
    w("//@   ensures @C01 @pinned bin.int.power: %s && op == code.OpPower ==> %s && topInt(vm, f2i(pow(i2f(old(ival(%s))), i2f(old(ival(%s))))))" % (II, ok, L, R))
    for n, o in cmps:
        w("//@   ensures @C01 bin.int.%s: %s && op == code.Op%s ==> %s && topBool(vm, old(ival(%s)) %s old(ival(%s)))" % (n.lower(), II, n, ok, L, o, R))
    # float mixes
    NF = "%s && isNum(%s) && isNum(%s) && !(isInt(%s) && isInt(%s))" % (D2, L, R, L, R)
    FL, FR = "old(fl(%s))" % L, "old(fl(%s))" % R
    for n, o in arith:
        w("//@   ensures @C01 bin.float.%s: %s && op == code.Op%s ==> %s && topFloat(vm, %s %s %s)" % (n.lower(), NF, n, ok, FL, o, FR))
    w("//@   ensures @C01 bin.float.div: %s && op == code.OpDiv && !fzero(%s) ==> %s && topFloat(vm, %s / %s)" % (NF, FR, ok, FL, FR))
    w("//@   ensures @C01 bin.float.div0: %s && op == code.OpDiv && fzero(%s) ==> err != nil" % (NF, FR))
    w("//@   ensures @C01 @pinned bin.float.mod: %s && op == code.OpMod && f2i(%s) != 0 ==> %s && topFloat(vm, i2f(f2i(%s) %% f2i(%s)))" % (NF, FR, ok, FL, FR))
    w("//@   ensures @C01 @pinned bin.float.power: %s && op == code.OpPower ==> %s && topFloat(vm, pow(%s, %s))" % (NF, ok, FL, FR))
    for n, o in cmps:
        w("//@   ensures @C01 bin.float.%s: %s && op == code.Op%s ==> %s && topBool(vm, %s %s %s)" % (n.lower(), NF, n, ok, FL, o, FR))
    # numbers: operators that do not accept numbers
    w("//@   ensures @C01 bin.num.badop: %s && isNum(%s) && isNum(%s) && (op == code.OpMatches || op == code.OpNotMatches || op == code.OpArrayIn) ==> err != nil" % (D2, L, R))
    # strings
    SS = "%s && isStr(%s) && isStr(%s)" % (D2, L, R)
    for n, o in cmps:
        w("//@   ensures @C01 bin.str.%s: %s && op == code.Op%s ==> %s && topBool(vm, old(sval(%s)) %s old(sval(%s)))" % (n.lower(), SS, n, ok, L, o, R))
    w("//@   ensures @C01 bin.str.add: %s && op == code.OpAdd ==> %s && topStr(vm, old(sval(%s)) + old(sval(%s)))" % (SS, ok, L, R))
    w("//@   ensures @C01 @C16 bin.str.in: %s && op == code.OpArrayIn ==> %s && topBool(vm, strContains(old(sval(%s)), old(sval(%s))))" % (SS, ok, R, L))
    w("//@   ensures @C01 bin.str.badop: %s && (op == code.OpSub || op == code.OpMul || op == code.OpDiv || op == code.OpMod || op == code.OpPower || op == code.OpMatches || op == code.OpNotMatches) ==> err != nil" % SS)
    # string ~= regexp
    w("//@   ensures @C01 bin.match.type: %s && isStr(%s) && isRegexp(%s) && (op == code.OpMatches || op == code.OpNotMatches) && err == nil ==> replaced2(vm) && isBool(top(vm))" % (D2, L, R))
    w("//@   ensures @C01 bin.match.badop: %s && isStr(%s) && isRegexp(%s) && op != code.OpMatches && op != code.OpNotMatches && %s && op != code.OpArrayIn ==> err != nil" % (D2, L, R, notLogic))
    # booleans
    BB = "%s && isBool(%s) && isBool(%s)" % (D2, L, R)
    w("//@   ensures @C01 bin.bool.equal: %s && op == code.OpEqual ==> %s && topBool(vm, old(bval(%s)) == old(bval(%s)))" % (BB, ok, L, R))
    w("//@   ensures @C01 bin.bool.notequal: %s && op == code.OpNotEqual ==> %s && topBool(vm, old(bval(%s)) != old(bval(%s)))" % (BB, ok, L, R))
    # logic: every pair of types
    w("//@   ensures @C01 @C05 bin.and: %s && op == code.OpAnd ==> %s && topBool(vm, old(truthy(%s)) && old(truthy(%s)))" % (D2, ok, L, R))
    w("//@   ensures @C01 @C05 bin.or: %s && op == code.OpOr ==> %s && topBool(vm, old(truthy(%s)) || old(truthy(%s)))" % (D2, ok, L, R))
    # in: right operand must be an array (or string in string)
    w("//@   ensures @C01 @C16 bin.in.notarray: %s && op == code.OpArrayIn && !isArray(%s) && !(isStr(%s) && isStr(%s)) ==> err != nil" % (D2, R, L, R))
    # mixed types
    w("//@   ensures @C01 bin.mismatch: %s && tag(%s) != tag(%s) && !(isNum(%s) && isNum(%s)) && !(isStr(%s) && isRegexp(%s)) && %s && op != code.OpArrayIn ==> err != nil" % (D2, L, R, L, R, L, R, notLogic))
    # same non-numeric, non-string, non-boolean type: arithmetic and ordering are errors
    w("//@   ensures @C01 bin.nonnum: %s && tag(%s) == tag(%s) && !isNum(%s) && !isStr(%s) && !isBool(%s) && %s && op != code.OpArrayIn && op != code.OpEqual && op != code.OpNotEqual ==> err != nil" % (D2, L, R, L, L, L, notLogic))
    w("//@   ensures @C18 bin.underflow: old(depth(vm)) < 2 ==> err != nil")
    w("//@   ensures @C18 bin.effect: old(depth(vm)) >= 2 && err == nil ==> replaced2(vm)")
    w("//@   panics when %s && ((isNum(%s) && isNum(%s) && op == code.OpMod && %s && (isInt(%s) && isInt(%s) ? ival(%s) == 0 : f2i(fl(%s)) == 0)) || (isStr(%s) && isRegexp(%s) && %s) || (op == code.OpArrayIn && isArray(%s) && %s && !(isNum(%s) && isNum(%s)) && !(isStr(%s) && isStr(%s))))" % (
        "depth(vm) >= 2", "TT2(vm)", "TT1(vm)", "true", "TT2(vm)", "TT1(vm)", "TT1(vm)", "TT1(vm)", "TT2(vm)", "TT1(vm)", notLogic, "TT1(vm)", "true", "TT2(vm)", "TT1(vm)", "TT2(vm)", "TT1(vm)"))
    w()
    print("\n".join(out))

if len(sys.argv) > 1 and sys.argv[1] == "binop":
    binop()
