#!/bin/bash
# check_benign.sh [patch...]: harmless changes (comments, renamed locals, an extracted helper, reordered
# independent statements, reworded messages, restructured branches) must not raise an alarm.  For each patch in
# /verif/benign: apply to a scratch copy, run the repository's suite (must pass), run every registered check.
export GOFLAGS=-mod=mod GOPROXY=off GOSUMDB=off GOTOOLCHAIN=local
cd /verif/benign
[ -z "$VERIF_SNAP" ] && { eval "$(/verif/tools/snapshot.sh)"; trap "rm -rf $VERIF_SNAP" EXIT; }
for p in ${@:-*.patch}; do
  d=$(mktemp -d); out=$(mktemp -d); cp -r ${SEED_REPO:-/repo}/. $d/; rm -rf $d/.git
  (cd $d && patch -s -p1 < /verif/benign/$p) || { echo "BENIGN $p: patch does not apply"; rm -rf $d $out; continue; }
  (cd $d && go test -vet=off -count=1 ./... >$out/suite.txt 2>&1) || { echo "BENIGN $p: suite fails"; rm -rf $d $out; continue; }
  alarms=""
  for id in $(jq -r '.checks[].property_id' /verif/MANIFEST.json); do
    GOVC_REPO=$d GOVC_OUT=$out ${GOVC_BIN:-/verif/bin/govc} check $id > $out/$id.txt 2>&1 || alarms="$alarms $id($(grep -c '^VIOLATION' $out/$id.txt))"
  done
  echo "BENIGN $p: alarms:${alarms:- none}"
  [ -n "$alarms" ] && for id in $alarms; do i=${id%%(*}; grep '^VIOLATION\|ENGINE' $out/$i.txt | head -2 | sed 's/replay=[^ ]* //' | cut -c1-220; done
  rm -rf $d $out
done
