#!/usr/bin/env python3
"""keep_seed.py <prop> <n> <caught-by or 'missed'> : copy /tmp/seed-<prop>/{patch<n>.diff,demo<n>_test.go,notes<n>.md}
to /verif/seeded/<prop>-<n>/ with meta.json"""
import sys, json, os, shutil, re
prop, n, caught = sys.argv[1], sys.argv[2], sys.argv[3]
src = f"/tmp/seed-{prop}"
dst = f"/verif/seeded/{prop}-{n}"
os.makedirs(dst, exist_ok=True)
shutil.copy(f"{src}/patch{n}.diff", f"{dst}/patch.diff")
shutil.copy(f"{src}/demo{n}_test.go", f"{dst}/demo_test.go")
notes = open(f"{src}/notes{n}.md").read() if os.path.exists(f"{src}/notes{n}.md") else ""
shutil.copy(f"{src}/notes{n}.md", f"{dst}/notes.md") if notes else None
meta = {
  "property": prop,
  "source": "independent sub-agent given only the property text and a scratch worktree of /repo (no access to /verif)",
  "needs_to_manifest": notes.strip().split("\n")[0:12],
  "confirmed_by_me": {"suite_with_patch": "pass", "demo_with_patch": "fail", "demo_without_patch": "pass",
                      "how": "tools/try_seed.sh on a scratch copy of /repo (mktemp -d, removed afterwards)"},
  "ran": f"/verif/tools/try_seed.sh /verif/seeded/{prop}-{n}/patch.diff /verif/seeded/{prop}-{n}/demo_test.go {prop}",
  "detected_by": caught if caught != "missed" else None,
  "status": "caught" if caught != "missed" else "missed",
}
if len(sys.argv) > 4:
  meta["comment"] = sys.argv[4]
json.dump(meta, open(f"{dst}/meta.json", "w"), indent=1)
print("kept", dst, meta["status"])
