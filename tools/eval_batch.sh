#!/bin/bash
# eval_batch.sh <suffix>: evaluates /tmp/seed-C??<suffix>/patch{1,2} against the property's check
sfx=$1
for d in $(ls -d /tmp/seed-C??$sfx); do k=$(basename $d | sed 's/seed-//'); prop=${k%$sfx}; for n in 1 2; do
  res=$(/verif/tools/try_seed.sh $d/patch$n.diff $d/demo${n}_test.go $prop 2>&1)
  conf=$(echo "$res" | grep '^CONFIRM\|^RESULT' | head -1 | sed 's/CONFIRM //; s/demo-without-patch=pass demo-with-patch=fail suite-with-patch=pass/confirmed/')
  chk=$(echo "$res" | grep '^CHECK' | head -1 | sed 's/CHECK //')
  first=$(echo "$res" | grep '^VIOLATION' | head -1 | sed 's/.*obligation=//' | cut -c1-100)
  echo "$k-$n [$conf] $chk :: $first"
done; done
