#!/usr/bin/env python3
"""unsatcore.py q.smt2: names every top-level assert and prints the unsat core (z3-new)."""
import sys, subprocess, re
src = open(sys.argv[1]).read().split("\n")
out = ["(set-option :produce-unsat-cores true)"]
names = {}
n = 0
for l in src:
    if l.startswith("(assert ") and l.rstrip().endswith(")") and "(check-sat" not in l:
        body = l.rstrip()
        m = re.match(r"^\(assert (.*)\)\s*(;.*)?$", body)
        if m:
            n += 1
            nm = "A%d" % n
            names[nm] = l
            out.append("(assert (! %s :named %s))" % (m.group(1), nm))
            continue
    if l.startswith("(get-model"):
        continue
    out.append(l)
out.append("(get-unsat-core)")
open("/tmp/core.smt2", "w").write("\n".join(out))
r = subprocess.run(["z3-new", "-T:60", "/tmp/core.smt2"], capture_output=True, text=True).stdout
print(r.split("\n")[0])
for nm in re.findall(r"A\d+", "\n".join(r.split("\n")[1:])):
    print(nm, names[nm][:int(sys.argv[2]) if len(sys.argv) > 2 else 400])
