#!/bin/bash
# rac.sh <property> [repo] : runs the bounded harness of /verif/rac for C02 / C03 / C18 against the repo's
# current working tree (sources injected with go test -overlay; nothing is written into the repo).
# Env: RAC_N (programs), RAC_DEPTH, RAC_SIZE, VERIF_SEED, RAC_OUT (JSON report path).
export GOFLAGS=-mod=mod GOPROXY=off GOSUMDB=off GOTOOLCHAIN=local
id=$1; repo=${2:-/repo}
ov=$(mktemp /tmp/rac-ov.XXXXXX.json); trap "rm -f $ov" EXIT
{ echo '{"Replace": {'
  for f in /verif/rac/rac_*_test.go; do echo " \"$repo/zz_$(basename $f)\": \"$f\","; done
  echo " \"$repo/vm/zz_verif_access.go\": \"/verif/rac/vm_access.go\""
  echo '}}'; } > $ov
cd $repo && go test -tags verif -overlay $ov -vet=off -count=1 -timeout ${RAC_TIMEOUT:-900}s -run "TestRAC_$id\$" -v . 2>&1
