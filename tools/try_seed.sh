#!/bin/bash
# try_seed.sh <seed-dir> <patch-file> <demo-file> <property> [more properties...]
# Confirms a seeded change (compiles, suite passes, demo fails with / passes without) on a scratch
# copy of /repo and runs the given property checks against the copy.  Scratch copy removed at exit.
export GOFLAGS=-mod=mod GOPROXY=off GOSUMDB=off GOTOOLCHAIN=local
patch=$1; demo=$2; shift 2
d=$(mktemp -d); out=$(mktemp -d); trap "rm -rf $d $out" EXIT
cp -r ${SEED_REPO:-/repo}/. $d/; rm -rf $d/.git
# demo on the unpatched copy
cp $demo $d/zz_demo_test.go
(cd $d && go test -vet=off -count=1 -timeout 120s -run 'Demo' . >$out/demo0.txt 2>&1); r0=$?
(cd $d && patch -s -p1 < $patch) || { echo "RESULT patch-does-not-apply"; exit 3; }
(cd $d && go build ./... 2>$out/build.txt) || { echo "RESULT does-not-compile"; cat $out/build.txt | head -5; exit 3; }
(cd $d && go test -vet=off -count=1 -timeout 120s -run 'Demo' . >$out/demo1.txt 2>&1); r1=$?
rm $d/zz_demo_test.go
(cd $d && go test -vet=off -count=1 -timeout 300s ./... >$out/suite.txt 2>&1); rs=$?
echo "CONFIRM demo-without-patch=$([ $r0 = 0 ] && echo pass || echo FAIL) demo-with-patch=$([ $r1 = 0 ] && echo PASS || echo fail) suite-with-patch=$([ $rs = 0 ] && echo pass || echo FAIL)"
for prop in "$@"; do
  GOVC_REPO=$d GOVC_OUT=$out ${GOVC_BIN:-/verif/bin/govc} check $prop > $out/check-$prop.txt 2>&1; rc=$?
  echo "CHECK $prop exit=$rc $(grep -c '^VIOLATION' $out/check-$prop.txt) violations"
  grep '^VIOLATION\|ENGINE-ERROR\|engine error' $out/check-$prop.txt | sed 's/replay=[^ ]* //' | cut -c1-220 | head -6
done
