#!/bin/bash
# check_seeds.sh [seed-dir...]: re-evaluates the stored seeded changes against the current /repo and the
# current checks; writes /verif/seeded/STATUS.txt (one line per seed: applies?, confirmed?, caught by which check).
cd /verif/seeded
[ -z "$VERIF_SNAP" ] && { eval "$(/verif/tools/snapshot.sh)"; trap "rm -rf $VERIF_SNAP" EXIT; }
out=/verif/seeded/STATUS.txt; : > $out.tmp
for d in ${@:-$(ls -d C*/ | tr -d /)}; do
  prop=$(jq -r .property $d/meta.json)
  res=$(/verif/tools/try_seed.sh /verif/seeded/$d/patch.diff /verif/seeded/$d/demo_test.go $prop 2>&1)
  if echo "$res" | grep -q "patch-does-not-apply\|does-not-compile"; then
    echo "$d stale (the patch no longer applies to the repaired tree; recorded result: $(jq -r .status $d/meta.json))" >> $out.tmp; continue
  fi
  conf=$(echo "$res" | grep '^CONFIRM' | sed 's/CONFIRM //')
  chk=$(echo "$res" | grep '^CHECK' | head -1)
  first=$(echo "$res" | grep '^VIOLATION' | head -1 | sed 's/.*obligation=//' | cut -c1-110)
  echo "$d [$conf] $chk :: $first" >> $out.tmp
done
mv $out.tmp $out; cat $out
