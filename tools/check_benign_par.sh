#!/bin/bash
# check_benign_par.sh <jobs> [patch...]: like check_benign.sh, several patches at a time.
export GOFLAGS=-mod=mod GOPROXY=off GOSUMDB=off GOTOOLCHAIN=local
jobs=${1:-3}; shift
cd /verif/benign
[ -z "$VERIF_SNAP" ] && { eval "$(/verif/tools/snapshot.sh)"; trap "rm -rf $VERIF_SNAP" EXIT; }
export VERIF_SNAP SEED_REPO GOVC_HOME GOVC_BIN
printf '%s\n' ${@:-*.patch} | xargs -P $jobs -I{} /verif/tools/check_benign.sh {}
