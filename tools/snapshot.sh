#!/bin/bash
# snapshot.sh : copies what a long regression run reads (/repo, the govc binary, spec/, rac/, the findings
# file) to a directory under /tmp and prints "export ..." lines for it, so that the working copies can be
# edited while the run goes on.  The caller removes the directory ($VERIF_SNAP) when done.
s=$(mktemp -d /tmp/verif-snap.XXXXXX)
mkdir -p $s/repo $s/home/bin
cp -r /repo/. $s/repo/; rm -rf $s/repo/.git
cp /verif/bin/govc $s/home/bin/govc
cp -r /verif/spec /verif/rac $s/home/
cp /verif/KNOWN_FINDINGS.txt $s/home/
echo "export VERIF_SNAP=$s SEED_REPO=$s/repo GOVC_HOME=$s/home GOVC_BIN=$s/home/bin/govc"
