//go:build verif

package evalfilter

// Bounded harness of /verif for C02 / C03 / C18 (injected with `go test -overlay`, never written into
// the repository).  This file: a generator of scripts over the control-flow constructs of the
// language, and a reference interpreter of that fragment written from the language definition
// (README / property C02), independent of the compiler, the optimizer and the machine.

import (
	"fmt"
	"math/rand"
	"regexp"
	"sort"
	"strconv"
	"strings"
)

// ---- values of the reference interpreter -------------------------------------------------------

type rval struct {
	k    byte // 'n' null, 'i' integer, 's' string, 'b' boolean, 'a' array, 'h' hash
	i    int64
	s    string
	b    bool
	a    []rval
	keys []rval // hash: keys (a holds the values), kept sorted by printed key
}

func rInt(i int64) rval  { return rval{k: 'i', i: i} }
func rStr(s string) rval { return rval{k: 's', s: s} }
func rBool(b bool) rval  { return rval{k: 'b', b: b} }
func rNull() rval        { return rval{k: 'n'} }
func rArr(a []rval) rval { return rval{k: 'a', a: a} }
func (v rval) typ() string {
	switch v.k {
	case 'i':
		return "INTEGER"
	case 's':
		return "STRING"
	case 'b':
		return "BOOLEAN"
	case 'a':
		return "ARRAY"
	case 'h':
		return "HASH"
	}
	return "NULL"
}
func (v rval) inspect() string {
	switch v.k {
	case 'i':
		return strconv.FormatInt(v.i, 10)
	case 's':
		return v.s
	case 'b':
		if v.b {
			return "true"
		}
		return "false"
	case 'a':
		var p []string
		for _, e := range v.a {
			p = append(p, e.inspect())
		}
		return "[" + strings.Join(p, ", ") + "]"
	case 'h':
		var p []string
		for i := range v.keys {
			p = append(p, v.keys[i].inspect()+": "+v.a[i].inspect())
		}
		return "{" + strings.Join(p, ", ") + "}"
	}
	return "null"
}
func (v rval) show() string { return v.typ() + ":" + v.inspect() }
func (v rval) truthy() bool {
	switch v.k {
	case 'i':
		return v.i > 0
	case 's':
		return v.s != ""
	case 'b':
		return v.b
	case 'a', 'h':
		return len(v.a) != 0
	}
	return false
}

// ---- the generated fragment -----------------------------------------------------------------------

type gExpr struct {
	op   string // ilit slit blit fld var bin tern id neg not arr rng hash
	i    int64
	s    string
	b    bool
	l, r *gExpr
	c    *gExpr
	list []*gExpr
}

type gCase struct {
	vals []*gExpr // literal or expression values
	re   string   // regexp source (without slashes) when non-empty
	body []*gStmt
}

type gStmt struct {
	op    string // assign inc dec trace if while foreach switch return expr
	name  string
	e     *gExpr
	conds []*gExpr
	blks  [][]*gStmt
	els   []*gStmt
	hasEl bool
	idx   string
	limit int64
	cases []*gCase
	def   []*gStmt
	hasDf bool
}

func (e *gExpr) src() string {
	switch e.op {
	case "ilit":
		return strconv.FormatInt(e.i, 10)
	case "slit":
		return strconv.Quote(e.s)
	case "blit":
		if e.b {
			return "true"
		}
		return "false"
	case "fld", "var":
		return e.s
	case "bin":
		return "(" + e.l.src() + " " + e.s + " " + e.r.src() + ")"
	case "tern":
		return "(" + e.c.src() + " ? " + e.l.src() + " : " + e.r.src() + ")"
	case "id":
		return "id(" + e.l.src() + ")"
	case "neg":
		return "-" + e.l.src()
	case "not":
		return "!" + e.l.src()
	case "arr":
		var p []string
		for _, x := range e.list {
			p = append(p, x.src())
		}
		return "[" + strings.Join(p, ", ") + "]"
	case "rng":
		return e.l.src() + ".." + e.r.src()
	case "hash":
		var p []string
		for i := 0; i+1 < len(e.list); i += 2 {
			p = append(p, e.list[i].src()+": "+e.list[i+1].src())
		}
		return "{" + strings.Join(p, ", ") + "}"
	}
	return "?"
}

func blockSrc(b []*gStmt, ind string) string {
	var sb strings.Builder
	for _, s := range b {
		sb.WriteString(s.src(ind))
	}
	return sb.String()
}

func (s *gStmt) src(ind string) string {
	in2 := ind + "  "
	switch s.op {
	case "assign":
		return ind + s.name + " = " + s.e.src() + ";\n"
	case "inc":
		return ind + s.name + "++;\n"
	case "dec":
		return ind + s.name + "--;\n"
	case "trace":
		return ind + "trace(" + s.e.src() + ");\n"
	case "expr":
		return ind + s.e.src() + ";\n"
	case "return":
		return ind + "return " + s.e.src() + ";\n"
	case "if":
		var sb strings.Builder
		for i, c := range s.conds {
			if i == 0 {
				sb.WriteString(ind + "if ( " + c.src() + " ) {\n")
			} else {
				sb.WriteString(ind + "} else if ( " + c.src() + " ) {\n")
			}
			sb.WriteString(blockSrc(s.blks[i], in2))
		}
		if s.hasEl {
			sb.WriteString(ind + "} else {\n" + blockSrc(s.els, in2))
		}
		sb.WriteString(ind + "}\n")
		return sb.String()
	case "while":
		return ind + s.name + " = 0;\n" + ind + "while ( " + s.name + " < " + strconv.FormatInt(s.limit, 10) + " ) {\n" +
			blockSrc(s.blks[0], in2) + in2 + s.name + " = " + s.name + " + 1;\n" + ind + "}\n"
	case "foreach":
		h := "foreach " + s.name
		if s.idx != "" {
			h = "foreach " + s.idx + ", " + s.name
		}
		return ind + h + " in " + s.e.src() + " {\n" + blockSrc(s.blks[0], in2) + ind + "}\n"
	case "switch":
		var sb strings.Builder
		sb.WriteString(ind + "switch ( " + s.e.src() + " ) {\n")
		emitDef := func() {
			if s.hasDf {
				sb.WriteString(in2 + "default {\n" + blockSrc(s.def, in2+"  ") + in2 + "}\n")
			}
		}
		if s.limit == 1 { // default written first: its position must not matter
			emitDef()
		}
		for _, c := range s.cases {
			if c.re != "" {
				sb.WriteString(in2 + "case /" + c.re + "/ {\n")
			} else {
				var p []string
				for _, v := range c.vals {
					p = append(p, v.src())
				}
				sb.WriteString(in2 + "case " + strings.Join(p, ", ") + " {\n")
			}
			sb.WriteString(blockSrc(c.body, in2+"  ") + in2 + "}\n")
		}
		if s.limit != 1 {
			emitDef()
		}
		sb.WriteString(ind + "}\n")
		return sb.String()
	}
	return ind + "?;\n"
}

// ---- reference interpreter ---------------------------------------------------------------------------

type refState struct {
	fields map[string]rval
	vars   map[string]rval // global variables
	locals []map[string]rval
	trace  []string
	steps  int
}

type refReturn struct{ v rval }
type refError struct{ msg string }

func (st *refState) lookup(name string) rval {
	// a variable is found under the name as written; a name with the legacy "$" prefix that no variable
	// has stands for the variable or field without the prefix
	for pass := 0; pass < 2; pass++ {
		for i := len(st.locals) - 1; i >= 0; i-- {
			if v, ok := st.locals[i][name]; ok {
				return v
			}
		}
		if v, ok := st.vars[name]; ok {
			return v
		}
		if !strings.HasPrefix(name, "$") {
			break
		}
		name = strings.TrimPrefix(name, "$")
	}
	if v, ok := st.fields[name]; ok {
		return v
	}
	return rNull()
}

func (st *refState) assign(name string, v rval) {
	for i := len(st.locals) - 1; i >= 0; i-- {
		if _, ok := st.locals[i][name]; ok {
			st.locals[i][name] = v
			return
		}
	}
	st.vars[name] = v
}

func (st *refState) eval(e *gExpr) rval {
	switch e.op {
	case "ilit":
		return rInt(e.i)
	case "slit":
		return rStr(e.s)
	case "blit":
		return rBool(e.b)
	case "fld", "var":
		return st.lookup(e.s)
	case "neg":
		v := st.eval(e.l)
		if v.k != 'i' {
			panic(refError{"minus of non-number"})
		}
		return rInt(-v.i)
	case "not":
		// C05: ! negates a boolean, gives true for null and false for anything else
		v := st.eval(e.l)
		switch v.k {
		case 'b':
			return rBool(!v.b)
		case 'n':
			return rBool(true)
		}
		return rBool(false)
	case "id":
		v := st.eval(e.l)
		st.trace = append(st.trace, "id("+v.show()+")")
		return v
	case "tern":
		if st.eval(e.c).truthy() {
			return st.eval(e.l)
		}
		return st.eval(e.r)
	case "arr":
		var out []rval
		for _, x := range e.list {
			out = append(out, st.eval(x))
		}
		return rArr(out)
	case "rng":
		lo, hi := st.eval(e.l), st.eval(e.r)
		if lo.k != 'i' || hi.k != 'i' || lo.i > hi.i {
			panic(refError{"bad range"})
		}
		var out []rval
		for i := lo.i; i <= hi.i; i++ {
			out = append(out, rInt(i))
		}
		return rArr(out)
	case "hash":
		h := rval{k: 'h'}
		type kv struct{ k, v rval }
		var kvs []kv
		for i := 0; i+1 < len(e.list); i += 2 {
			k, v := st.eval(e.list[i]), st.eval(e.list[i+1])
			replaced := false
			for j := range kvs {
				if kvs[j].k.k == k.k && kvs[j].k.inspect() == k.inspect() {
					kvs[j].v = v
					replaced = true
				}
			}
			if !replaced {
				kvs = append(kvs, kv{k, v})
			}
		}
		sort.SliceStable(kvs, func(a, b int) bool { return kvs[a].k.inspect() < kvs[b].k.inspect() })
		for _, p := range kvs {
			h.keys = append(h.keys, p.k)
			h.a = append(h.a, p.v)
		}
		return h
	case "bin":
		l := st.eval(e.l)
		r := st.eval(e.r)
		switch e.s {
		case "&&":
			return rBool(l.truthy() && r.truthy())
		case "||":
			return rBool(l.truthy() || r.truthy())
		}
		if l.k == 'i' && r.k == 'i' {
			switch e.s {
			case "+":
				return rInt(l.i + r.i)
			case "-":
				return rInt(l.i - r.i)
			case "*":
				return rInt(l.i * r.i)
			case "/":
				if r.i == 0 {
					panic(refError{"division by zero"})
				}
				return rInt(l.i / r.i)
			case "%":
				if r.i == 0 {
					panic(refError{"modulo by zero"})
				}
				return rInt(l.i % r.i)
			case "<":
				return rBool(l.i < r.i)
			case "<=":
				return rBool(l.i <= r.i)
			case ">":
				return rBool(l.i > r.i)
			case ">=":
				return rBool(l.i >= r.i)
			case "==":
				return rBool(l.i == r.i)
			case "!=":
				return rBool(l.i != r.i)
			}
		}
		if l.k == 's' && r.k == 's' {
			switch e.s {
			case "+":
				return rStr(l.s + r.s)
			case "==":
				return rBool(l.s == r.s)
			case "!=":
				return rBool(l.s != r.s)
			}
		}
		if l.k == 'b' && r.k == 'b' {
			switch e.s {
			case "==":
				return rBool(l.b == r.b)
			case "!=":
				return rBool(l.b != r.b)
			}
		}
		panic(refError{"type mismatch " + l.typ() + e.s + r.typ()})
	}
	panic(refError{"unknown expression " + e.op})
}

func (st *refState) run(b []*gStmt) {
	for _, s := range b {
		st.exec(s)
	}
}

func (st *refState) tick() {
	st.steps++
	if st.steps > 200000 {
		panic(refError{"reference interpreter: step bound exceeded"})
	}
}

func (st *refState) exec(s *gStmt) {
	st.tick()
	switch s.op {
	case "assign":
		st.assign(s.name, st.eval(s.e))
	case "inc", "dec":
		v := st.lookup(s.name)
		if v.k != 'i' {
			panic(refError{"++ of non-number"})
		}
		if s.op == "inc" {
			st.assign(s.name, rInt(v.i+1))
		} else {
			st.assign(s.name, rInt(v.i-1))
		}
	case "trace":
		v := st.eval(s.e)
		st.trace = append(st.trace, "trace("+v.show()+")")
	case "expr":
		st.eval(s.e)
	case "return":
		panic(refReturn{st.eval(s.e)})
	case "if":
		for i, c := range s.conds {
			if st.eval(c).truthy() {
				st.run(s.blks[i])
				return
			}
		}
		if s.hasEl {
			st.run(s.els)
		}
	case "while":
		st.assign(s.name, rInt(0))
		for {
			st.tick()
			v := st.lookup(s.name)
			if !(v.k == 'i' && v.i < s.limit) {
				break
			}
			st.run(s.blks[0])
			v = st.lookup(s.name)
			if v.k != 'i' {
				panic(refError{"type mismatch"})
			}
			st.assign(s.name, rInt(v.i+1))
		}
	case "foreach":
		it := st.eval(s.e)
		var vals, idxs []rval
		switch it.k {
		case 'a':
			for i, v := range it.a {
				vals = append(vals, v)
				idxs = append(idxs, rInt(int64(i)))
			}
		case 's':
			i := 0
			for _, r := range it.s {
				vals = append(vals, rStr(string(r)))
				idxs = append(idxs, rInt(int64(i)))
				i++
			}
		case 'h':
			for i := range it.keys {
				vals = append(vals, it.a[i])
				idxs = append(idxs, it.keys[i])
			}
		default:
			panic(refError{"not iterable"})
		}
		st.locals = append(st.locals, map[string]rval{})
		for i := range vals {
			st.tick()
			sc := st.locals[len(st.locals)-1]
			sc[s.name] = vals[i]
			if s.idx != "" {
				sc[s.idx] = idxs[i]
			}
			st.run(s.blks[0])
		}
		st.locals = st.locals[:len(st.locals)-1]
	case "switch":
		subj := st.eval(s.e)
		for _, c := range s.cases {
			hit := false
			if c.re != "" {
				hit = regexp.MustCompile(c.re).MatchString(subj.inspect())
			} else {
				for _, v := range c.vals {
					cv := st.eval(v)
					if cv.k == subj.k && cv.inspect() == subj.inspect() {
						hit = true
						break
					}
				}
			}
			if hit {
				st.run(c.body)
				return
			}
		}
		if s.hasDf {
			st.run(s.def)
		}
	default:
		panic(refError{"unknown statement " + s.op})
	}
}

type observed struct {
	failed bool
	result string
	trace  []string
	vars   map[string]string
}

func (o observed) String() string {
	var names []string
	for n := range o.vars {
		names = append(names, n)
	}
	sort.Strings(names)
	var vs []string
	for _, n := range names {
		vs = append(vs, n+"="+o.vars[n])
	}
	if o.failed {
		return fmt.Sprintf("ERROR calls=%v vars=%v", o.trace, vs)
	}
	return fmt.Sprintf("result=%s calls=%v vars=%v", o.result, o.trace, vs)
}

func sameObserved(a, b observed, compareVarsOnError bool) bool {
	if a.failed != b.failed {
		return false
	}
	if !a.failed && a.result != b.result {
		return false
	}
	if strings.Join(a.trace, "|") != strings.Join(b.trace, "|") {
		return false
	}
	if a.failed && !compareVarsOnError {
		return true
	}
	if len(a.vars) != len(b.vars) {
		return false
	}
	for k, v := range a.vars {
		if b.vars[k] != v {
			return false
		}
	}
	return true
}

// refRun interprets the program on the given fields, starting from the given global variables (which
// it updates): the expected observation of one run.
func refRun(prog []*gStmt, fields, vars map[string]rval, watch []string) (obs observed) {
	st := &refState{fields: fields, vars: vars}
	obs.vars = map[string]string{}
	defer func() {
		if r := recover(); r != nil {
			switch x := r.(type) {
			case refReturn:
				obs.result = x.v.show()
			case refError:
				obs.failed = true
			default:
				panic(r)
			}
		}
		obs.trace = st.trace
		for _, n := range watch {
			if v, ok := st.vars[n]; ok {
				obs.vars[n] = v.show()
			} else {
				obs.vars[n] = "NULL:null"
			}
		}
	}()
	st.run(prog)
	obs.result = "NULL:null"
	return
}

// ---- generator ----------------------------------------------------------------------------------------

type gen struct {
	r        *rand.Rand
	intVars  []string // global integer variables the program may read and write
	loopInts []string // loop variables holding integers (readable only)
	loopStrs []string // loop variables holding strings (readable only)
	nWhile   int
	nLoop    int
	maxDepth int
	size     int // statements generated so far
	maxSize  int
	consts   bool // favour constant conditions and constant arithmetic (optimizer food)
	inEach   int  // nesting depth of foreach bodies
	// known finding C02/foreach-expression-statement: a statement that leaves a value (a call of a
	// value-returning function used as a statement) derails an enclosing foreach; such statements are
	// not generated inside foreach bodies (the finding has its own probe), unless this is set
	leakInEach bool
	sameNested bool
	iterating  map[string]int
}

var boolFields = []string{"B0", "B1", "B2", "B3"}
var smallInts = []int64{0, 1, 2, 3, 4, 5, 7, 10}
var edgeInts = []int64{65533, 65534, 65535, 65536, 70000, 300}

func (g *gen) pick(n int) int { return g.r.Intn(n) }

func (g *gen) intLit() *gExpr {
	if g.pick(10) == 0 {
		return &gExpr{op: "ilit", i: edgeInts[g.pick(len(edgeInts))]}
	}
	if g.pick(12) == 0 {
		return &gExpr{op: "neg", l: &gExpr{op: "ilit", i: smallInts[1+g.pick(len(smallInts)-1)]}}
	}
	return &gExpr{op: "ilit", i: smallInts[g.pick(len(smallInts))]}
}

func (g *gen) intExpr(d int) *gExpr {
	k := g.pick(12)
	if d <= 0 && k >= 6 {
		k = g.pick(6)
	}
	if g.consts && g.pick(3) == 0 {
		k = 0
	}
	switch {
	case k <= 1:
		return g.intLit()
	case k == 2:
		return &gExpr{op: "fld", s: []string{"N", "M"}[g.pick(2)]}
	case k <= 4:
		if len(g.loopInts) > 0 && g.pick(2) == 0 {
			return &gExpr{op: "var", s: g.loopInts[g.pick(len(g.loopInts))]}
		}
		name := g.intVars[g.pick(len(g.intVars))]
		if !strings.HasPrefix(name, "$") && g.pick(10) == 0 {
			name = "$" + name // the legacy spelling of a read
		}
		return &gExpr{op: "var", s: name}
	case k == 5:
		return g.intLit()
	case k <= 8:
		ops := []string{"+", "-", "*", "+", "-", "*", "/", "%"}
		op := ops[g.pick(len(ops))]
		r := g.intExpr(d - 1)
		if op == "/" || op == "%" {
			r = &gExpr{op: "ilit", i: []int64{1, 2, 3, 7}[g.pick(4)]}
		}
		return &gExpr{op: "bin", s: op, l: g.intExpr(d - 1), r: r}
	case k == 9:
		return &gExpr{op: "tern", c: g.cond(d - 1), l: g.intExprNoTern(d - 1), r: g.intExprNoTern(d - 1)}
	case k == 10:
		return &gExpr{op: "id", l: g.intExprNoTern(d - 1)}
	}
	return g.intLit()
}

// nested ternaries are rejected by the language: the arms and the condition of a ternary hold none
func (g *gen) intExprNoTern(d int) *gExpr {
	for i := 0; i < 20; i++ {
		e := g.intExpr(d)
		if !hasTern(e) {
			return e
		}
	}
	return g.intLit()
}

func hasTern(e *gExpr) bool {
	if e == nil {
		return false
	}
	if e.op == "tern" {
		return true
	}
	for _, x := range e.list {
		if hasTern(x) {
			return true
		}
	}
	return hasTern(e.l) || hasTern(e.r) || hasTern(e.c)
}

func (g *gen) cond(d int) *gExpr {
	k := g.pick(10)
	if g.consts && g.pick(2) == 0 {
		k = 7 + g.pick(3)
	}
	switch {
	case k <= 2:
		return &gExpr{op: "fld", s: boolFields[g.pick(len(boolFields))]}
	case k <= 4:
		ops := []string{"<", "<=", ">", ">=", "==", "!="}
		l, r := g.intExprNoTern(d-1), g.intExprNoTern(d-1)
		return &gExpr{op: "bin", s: ops[g.pick(len(ops))], l: l, r: r}
	case k == 5:
		c := g.cond(d - 1)
		if hasTern(c) {
			return &gExpr{op: "fld", s: "B0"}
		}
		if g.pick(4) == 0 {
			return &gExpr{op: "not", l: &gExpr{op: "not", l: c}}
		}
		return &gExpr{op: "not", l: c}
	case k == 6:
		if d > 0 {
			l, r := g.cond(d-1), g.cond(d-1)
			if hasCall(l) || hasCall(r) || hasTern(l) || hasTern(r) {
				return &gExpr{op: "fld", s: "B1"}
			}
			return &gExpr{op: "bin", s: []string{"&&", "||"}[g.pick(2)], l: l, r: r}
		}
		return &gExpr{op: "fld", s: "B2"}
	case k == 7:
		if g.pick(3) == 0 && d > 0 {
			// a ternary as a condition, with constant arms (the join of its arms sits right before the test)
			c := g.cond(d - 1)
			if !hasTern(c) && !hasCall(c) {
				arm := func() *gExpr {
					switch g.pick(4) {
					case 0:
						return &gExpr{op: "blit", b: true}
					case 1:
						return &gExpr{op: "blit", b: false}
					case 2:
						return &gExpr{op: "bin", s: "==", l: &gExpr{op: "ilit", i: 1}, r: &gExpr{op: "ilit", i: int64(1 + g.pick(2))}}
					}
					return &gExpr{op: "fld", s: boolFields[g.pick(len(boolFields))]}
				}
				return &gExpr{op: "tern", c: c, l: arm(), r: arm()}
			}
		}
		return &gExpr{op: "blit", b: g.pick(2) == 0}
	case k == 8:
		ops := []string{"==", "!=", "<", ">"}
		return &gExpr{op: "bin", s: ops[g.pick(len(ops))], l: &gExpr{op: "ilit", i: smallInts[g.pick(len(smallInts))]}, r: &gExpr{op: "ilit", i: smallInts[g.pick(len(smallInts))]}}
	default:
		// an integer used as a condition (truthy when positive)
		return g.intExprNoTern(d - 1)
	}
}

func hasCall(e *gExpr) bool {
	if e == nil {
		return false
	}
	if e.op == "id" {
		return true
	}
	return hasCall(e.l) || hasCall(e.r) || hasCall(e.c)
}

func (g *gen) block(depth int) []*gStmt {
	n := g.pick(4)
	var out []*gStmt
	for i := 0; i < n && g.size < g.maxSize; i++ {
		out = append(out, g.stmt(depth))
	}
	return out
}

func (g *gen) iterable() (*gExpr, byte) {
	switch g.pick(9) {
	case 0:
		return &gExpr{op: "fld", s: "L"}, 'i'
	case 1:
		return &gExpr{op: "fld", s: "S"}, 's'
	case 2:
		n := g.pick(4)
		var l []*gExpr
		for i := 0; i < n; i++ {
			l = append(l, g.intExprNoTern(1))
		}
		return &gExpr{op: "arr", list: l}, 'i'
	case 3:
		lo := int64(g.pick(3))
		return &gExpr{op: "rng", l: &gExpr{op: "ilit", i: lo}, r: &gExpr{op: "ilit", i: lo + int64(g.pick(4))}}, 'i'
	case 4:
		return &gExpr{op: "slit", s: []string{"", "a", "ab", "héλ", "xyz"}[g.pick(5)]}, 's'
	case 5:
		n := g.pick(4)
		var l []*gExpr
		keys := []string{"k1", "a", "zz", "m"}
		g.r.Shuffle(len(keys), func(i, j int) { keys[i], keys[j] = keys[j], keys[i] })
		for i := 0; i < n; i++ {
			// (no host calls among the values: the language does not define the order in which the pairs of a
			// hash literal are evaluated - the engine evaluates them in key order - so the oracle must not either)
			v := g.intExprNoTern(1)
			for hasCall(v) {
				v = g.intExprNoTern(0)
			}
			l = append(l, &gExpr{op: "slit", s: keys[i]}, v)
		}
		return &gExpr{op: "hash", list: l}, 'h'
	case 6:
		return &gExpr{op: "fld", s: "H"}, 'h'
	case 7:
		return &gExpr{op: "fld", s: "L"}, 'i'
	}
	return &gExpr{op: "fld", s: "S"}, 's'
}

func (g *gen) stmt(depth int) *gStmt {
	g.size++
	k := g.pick(16)
	if depth <= 0 && k >= 8 {
		k = g.pick(8)
	}
	switch {
	case k <= 1:
		return &gStmt{op: "assign", name: g.intVars[g.pick(len(g.intVars))], e: g.intExpr(2)}
	case k == 2:
		return &gStmt{op: []string{"inc", "dec"}[g.pick(2)], name: g.intVars[g.pick(len(g.intVars))]}
	case k <= 4:
		if len(g.loopStrs) > 0 && g.pick(2) == 0 {
			return &gStmt{op: "trace", e: &gExpr{op: "var", s: g.loopStrs[g.pick(len(g.loopStrs))]}}
		}
		return &gStmt{op: "trace", e: g.intExpr(2)}
	case k == 5:
		if g.pick(3) == 0 {
			return &gStmt{op: "return", e: g.intExpr(2)}
		}
		return &gStmt{op: "trace", e: g.intLit()}
	case k == 6:
		if g.inEach > 0 && !g.leakInEach {
			return &gStmt{op: "trace", e: g.intExpr(1)}
		}
		return &gStmt{op: "expr", e: &gExpr{op: "id", l: g.intExpr(1)}}
	case k == 7:
		return &gStmt{op: "assign", name: g.intVars[g.pick(len(g.intVars))], e: &gExpr{op: "tern", c: g.cond(1), l: g.intExprNoTern(1), r: g.intExprNoTern(1)}}
	case k <= 10:
		s := &gStmt{op: "if"}
		n := 1 + g.pick(3)
		for i := 0; i < n; i++ {
			s.conds = append(s.conds, g.cond(2))
			s.blks = append(s.blks, g.block(depth-1))
		}
		if g.pick(2) == 0 {
			s.hasEl = true
			s.els = g.block(depth - 1)
		}
		return s
	case k == 11:
		g.nWhile++
		s := &gStmt{op: "while", name: fmt.Sprintf("w%d", g.nWhile), limit: int64(g.pick(4))}
		s.blks = [][]*gStmt{g.block(depth - 1)}
		return s
	case k <= 13:
		g.nLoop++
		it, kind := g.iterable()
		// known finding C02/nested-foreach-same-object: the iteration position lives in the iterated object,
		// so a loop nested in a loop over the same object (same field, same string constant) derails the outer
		// one; such nestings are not generated (the finding has its own probe), unless sameNested is set
		for tries := 0; !g.sameNested && g.iterating[it.src()] > 0 && tries < 20; tries++ {
			it, kind = g.iterable()
		}
		if !g.sameNested && g.iterating[it.src()] > 0 {
			it, kind = &gExpr{op: "rng", l: &gExpr{op: "ilit", i: 1}, r: &gExpr{op: "ilit", i: 2}}, 'i'
		}
		if g.iterating == nil {
			g.iterating = map[string]int{}
		}
		if it.op == "fld" || it.op == "slit" {
			g.iterating[it.src()]++
			defer func(k string) { g.iterating[k]-- }(it.src())
		}
		s := &gStmt{op: "foreach", name: fmt.Sprintf("x%d", g.nLoop), e: it}
		if g.pick(2) == 0 {
			s.idx = fmt.Sprintf("i%d", g.nLoop)
		}
		saveI, saveS := g.loopInts, g.loopStrs
		switch kind {
		case 'i':
			g.loopInts = append(append([]string{}, g.loopInts...), s.name)
			if s.idx != "" {
				g.loopInts = append(g.loopInts, s.idx)
			}
		case 's':
			g.loopStrs = append(append([]string{}, g.loopStrs...), s.name)
			if s.idx != "" {
				g.loopInts = append(append([]string{}, g.loopInts...), s.idx)
			}
		case 'h':
			g.loopInts = append(append([]string{}, g.loopInts...), s.name)
			if s.idx != "" {
				g.loopStrs = append(append([]string{}, g.loopStrs...), s.idx)
			}
		}
		g.inEach++
		s.blks = [][]*gStmt{g.block(depth - 1)}
		g.inEach--
		g.loopInts, g.loopStrs = saveI, saveS
		return s
	default:
		s := &gStmt{op: "switch"}
		strSubj := len(g.loopStrs) > 0 && g.pick(2) == 0
		if strSubj {
			s.e = &gExpr{op: "var", s: g.loopStrs[g.pick(len(g.loopStrs))]}
		} else {
			s.e = g.intExprNoTern(1)
			for hasCall(s.e) {
				s.e = g.intExprNoTern(0)
			}
		}
		n := g.pick(4)
		for i := 0; i < n; i++ {
			c := &gCase{}
			switch g.pick(4) {
			case 0:
				if strSubj {
					c.re = []string{"^a", "b$", "[xyz]", "."}[g.pick(4)]
				} else {
					c.re = []string{"^1", "0$", "^-", "^[2-5]$"}[g.pick(4)]
				}
			case 1:
				if strSubj {
					c.vals = []*gExpr{{op: "slit", s: []string{"a", "b", "x", "λ"}[g.pick(4)]}, {op: "slit", s: "y"}}
				} else {
					c.vals = []*gExpr{g.intLit(), g.intLit()}
				}
			case 2:
				if strSubj {
					c.vals = []*gExpr{{op: "bin", s: "+", l: &gExpr{op: "slit", s: ""}, r: &gExpr{op: "slit", s: []string{"a", "b", "x"}[g.pick(3)]}}}
				} else {
					e := g.intExprNoTern(1)
					for hasCall(e) {
						e = g.intExprNoTern(0)
					}
					c.vals = []*gExpr{e}
				}
			default:
				if strSubj {
					c.vals = []*gExpr{{op: "slit", s: []string{"a", "b", "z", "h"}[g.pick(4)]}}
				} else {
					c.vals = []*gExpr{g.intLit()}
				}
			}
			c.body = g.block(depth - 1)
			s.cases = append(s.cases, c)
		}
		if g.pick(3) != 0 {
			s.hasDf = true
			s.def = g.block(depth - 1)
			if g.pick(4) == 0 {
				s.limit = 1
			}
		}
		return s
	}
}

// program: initialises the integer variables it uses, then a block of statements
func genProgram(r *rand.Rand, maxDepth, maxSize int, consts bool) ([]*gStmt, []string) {
	g := &gen{r: r, maxDepth: maxDepth, maxSize: maxSize, consts: consts}
	nv := 1 + r.Intn(3)
	for i := 0; i < nv; i++ {
		name := fmt.Sprintf("v%d", i)
		if i > 0 && i == nv-1 && r.Intn(3) == 0 {
			name = "$" + name // a variable whose name carries the prefix, wherever it is written
		}
		g.intVars = append(g.intVars, name)
	}
	var prog []*gStmt
	for _, v := range g.intVars {
		prog = append(prog, &gStmt{op: "assign", name: v, e: &gExpr{op: "ilit", i: int64(r.Intn(3))}})
	}
	n := 1 + r.Intn(5)
	for i := 0; i < n && g.size < g.maxSize; i++ {
		prog = append(prog, g.stmt(maxDepth))
	}
	watch := append([]string{}, g.intVars...)
	for i := 1; i <= g.nWhile; i++ {
		watch = append(watch, fmt.Sprintf("w%d", i))
	}
	return prog, watch
}
