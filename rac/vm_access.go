//go:build verif

package vm

// Read-only accessor for the bounded harness of /verif (injected with `go test -overlay`, never
// written into the repository): the program exactly as this machine will run it.

import (
	"github.com/skx/evalfilter/v2/code"
	"github.com/skx/evalfilter/v2/environment"
	"github.com/skx/evalfilter/v2/object"
)

// VerifProgram returns the constants, the main body and the function bodies held by the machine.
func (vm *VM) VerifProgram() ([]object.Object, code.Instructions, map[string]environment.UserFunction) {
	return vm.constants, vm.bytecode, vm.functions
}

// VerifStackDepth returns the number of values left on the value stack.
func (vm *VM) VerifStackDepth() int {
	return len(vm.stack.Export())
}
