//go:build verif

package evalfilter

// Bounded support for C04: the reflection over host objects is axiomatised in the verifier (field
// names and values are uninterpreted functions of the reflect.Value), so what a script receives for a
// field is also observed here on real structs and maps: every representable kind, embedded structs
// whose fields share names with the struct's own (Go's rule: the struct's own field is the field of
// that name), two distinct struct types that print alike, kinds the engine cannot represent, and
// sequences of runs over objects of different types on one evaluator (each run sees its own object).

import (
	"fmt"
	"os"
	"strings"
	"sync"
	"testing"
	"time"

	"github.com/skx/evalfilter/v2/object"
)

type C04Base struct {
	Name  string
	Count int
	Extra float64
}

type c04Private struct {
	Name    string
	mu      sync.Mutex
	created time.Time
	small   int
	Count   int
}

type c04OwnFirst struct {
	Name  string
	Count int
	C04Base
}

type c04OwnLast struct {
	C04Base
	Name  string
	Count int
}

type c04Kinds struct {
	Int   int
	I64   int64
	F32   float32
	F64   float64
	S     string
	B     bool
	T     time.Time
	IS    []int
	SS    []string
	FS    []float64
	BS    []bool
	Empty []string
	M     map[string]interface{}
	I8    int8
	U     uint
	P     *int
	Ch    chan int
	Fn    func()
	Any   interface{}
	Inner C04Base
	Mixed []interface{}
}

func c04RecA() interface{} {
	type Rec struct {
		Failures int
		Limit    int
		Host     string
	}
	return Rec{Failures: 3, Limit: 5, Host: "a"}
}

func c04RecB() interface{} {
	type Rec struct {
		Host     string
		Limit    int
		Failures int
	}
	return &Rec{Host: "b", Limit: 7, Failures: 9}
}

func c04Obj(v interface{}) object.Object {
	switch x := v.(type) {
	case object.Object:
		return x
	case nil:
		return &object.Null{}
	case int:
		return &object.Integer{Value: int64(x)}
	case int64:
		return &object.Integer{Value: x}
	case float64:
		return &object.Float{Value: x}
	case float32:
		return &object.Float{Value: float64(x)}
	case string:
		return &object.String{Value: x}
	case bool:
		return &object.Boolean{Value: x}
	case time.Time:
		return &object.Integer{Value: x.Unix()}
	case []int:
		a := &object.Array{}
		for _, e := range x {
			a.Elements = append(a.Elements, c04Obj(e))
		}
		return a
	case []string:
		a := &object.Array{}
		for _, e := range x {
			a.Elements = append(a.Elements, c04Obj(e))
		}
		return a
	case []float64:
		a := &object.Array{}
		for _, e := range x {
			a.Elements = append(a.Elements, c04Obj(e))
		}
		return a
	case []bool:
		a := &object.Array{}
		for _, e := range x {
			a.Elements = append(a.Elements, c04Obj(e))
		}
		return a
	case map[string]interface{}:
		h := &object.Hash{Pairs: map[object.HashKey]object.HashPair{}}
		for k, e := range x {
			ko := &object.String{Value: k}
			h.Pairs[ko.HashKey()] = object.HashPair{Key: ko, Value: c04Obj(e)}
		}
		return h
	}
	panic(fmt.Sprintf("c04Obj: %T", v))
}

type c04Case struct {
	desc string
	obj  interface{}
	// want: the value the field denotes; absent: the name is no field of the object (null);
	// free[name]: a kind the engine cannot represent, or a promoted field (null, an error, or the promoted value)
	want map[string]interface{}
	free map[string][]interface{}
}

func TestRAC_C04(t *testing.T) {
	rep := &racReport{Property: "C04", Seed: envInt("VERIF_SEED", 0)}
	defer rep.write()
	// the engine prints a line for each value of a kind it cannot represent
	if devnull, err := os.OpenFile(os.DevNull, os.O_WRONLY, 0); err == nil {
		saved := os.Stdout
		os.Stdout = devnull
		defer func() { os.Stdout = saved }()
	}
	one := 1
	when := time.Unix(1234567890, 0)
	base := C04Base{Name: "base-name", Count: 77, Extra: 2.5}
	kinds := c04Kinds{Int: -3, I64: 1 << 40, F32: 0.5, F64: 1e16, S: "héllo", B: true, T: when, IS: []int{3, 1, 2}, SS: []string{"b", "a", ""}, FS: []float64{1.5, -2}, BS: []bool{true, false},
		Empty: []string{}, M: map[string]interface{}{"k": 1, "s": "v", "n": map[string]interface{}{"x": 2.5}}, I8: 4, U: 5, P: &one, Any: 3, Inner: base,
		Mixed: []interface{}{1, map[string]interface{}{"x": "y"}, 3, nil, "s", []int{1}, 2.5, uint8(7), true}}
	kindsWant := map[string]interface{}{"Int": -3, "I64": int64(1 << 40), "F32": float32(0.5), "F64": 1e16, "S": "héllo", "B": true, "T": when, "IS": []int{3, 1, 2}, "SS": []string{"b", "a", ""},
		"FS": []float64{1.5, -2}, "BS": []bool{true, false}, "Empty": []string{}, "M": kinds.M}
	x1 := &object.String{Value: "x"}
	mixedNull := &object.Array{Elements: []object.Object{&object.Integer{Value: 1}, &object.Null{}, &object.Integer{Value: 3}, &object.Null{}, &object.String{Value: "s"}, &object.Null{},
		&object.Float{Value: 2.5}, &object.Null{}, &object.Boolean{Value: true}}}
	mixedFull := &object.Array{Elements: []object.Object{&object.Integer{Value: 1}, &object.Hash{Pairs: map[object.HashKey]object.HashPair{x1.HashKey(): {Key: x1, Value: &object.String{Value: "y"}}}},
		&object.Integer{Value: 3}, &object.Null{}, &object.String{Value: "s"}, &object.Array{Elements: []object.Object{&object.Integer{Value: 1}}}, &object.Float{Value: 2.5}, &object.Integer{Value: 7}, &object.Boolean{Value: true}}}
	// members the engine cannot represent are null (or, should it learn to, converted): the others keep their positions
	kindsFree := map[string][]interface{}{"Mixed": {mixedNull, mixedFull}, "I8": {4}, "U": {5}, "P": {1}, "Ch": nil, "Fn": nil, "Any": {3}, "Inner": nil}
	cases := []c04Case{
		{"struct, own fields declared before the embedded struct", c04OwnFirst{Name: "own", Count: 1, C04Base: base},
			map[string]interface{}{"Name": "own", "Count": 1}, map[string][]interface{}{"Extra": {2.5}, "C04Base": nil}},
		{"pointer to struct, own fields declared before the embedded struct", &c04OwnFirst{Name: "own2", Count: 2, C04Base: base},
			map[string]interface{}{"Name": "own2", "Count": 2}, map[string][]interface{}{"Extra": {2.5}, "C04Base": nil}},
		{"struct, own fields declared after the embedded struct", c04OwnLast{Name: "own3", Count: 3, C04Base: base},
			map[string]interface{}{"Name": "own3", "Count": 3}, map[string][]interface{}{"Extra": {2.5}, "C04Base": nil}},
		{"struct with every kind", kinds, kindsWant, kindsFree},
		{"pointer to struct with every kind", &kinds, kindsWant, kindsFree},
		{"record type A (prints as evalfilter.Rec)", c04RecA(), map[string]interface{}{"Failures": 3, "Limit": 5, "Host": "a"}, nil},
		{"record type B (also prints as evalfilter.Rec)", c04RecB(), map[string]interface{}{"Failures": 9, "Limit": 7, "Host": "b"}, nil},
		{"map", map[string]interface{}{"Name": "m", "Count": 9, "F64": 0.25, "IS": []int{1}, "M": map[string]interface{}{"a": 1}, "B": false, "T": when},
			map[string]interface{}{"Name": "m", "Count": 9, "F64": 0.25, "IS": []int{1}, "M": map[string]interface{}{"a": 1}, "B": false, "T": when}, nil},
		{"map with a key that is spelled with and without the legacy $ prefix", map[string]interface{}{"$Name": "prefixed", "Name": "plain", "Count": 1},
			map[string]interface{}{"Name": "plain", "Count": 1}, nil},
		{"map with keys that start with an underscore", map[string]interface{}{"_id": "x1", "__v": 2, "_": true, "Name": "u"}, map[string]interface{}{"_id": "x1", "__v": 2, "_": true, "Name": "u"}, nil},
		{"struct with unexported fields", &c04Private{Name: "p", Count: 6, created: time.Unix(5, 0), small: 3}, map[string]interface{}{"Name": "p", "Count": 6}, map[string][]interface{}{"created": {5}, "small": {3}, "mu": nil}},
		{"map of strings", map[string]string{"Name": "ms", "S": "t"}, map[string]interface{}{"Name": "ms", "S": "t"}, nil},
		{"map of integers", map[string]int{"Count": 4, "Int": -9}, map[string]interface{}{"Count": 4, "Int": -9}, nil},
		{"map of slices", map[string][]int{"IS": {4, 5}}, map[string]interface{}{"IS": []int{4, 5}}, nil},
		{"map holding a map of strings", map[string]interface{}{"Name": "mm", "M": map[string]string{"k": "v"}}, map[string]interface{}{"Name": "mm", "M": map[string]interface{}{"k": "v"}}, nil},
		{"struct with a map of integers", struct {
			Name string
			M    map[string]int
		}{"sm", map[string]int{"k": 7}}, map[string]interface{}{"Name": "sm", "M": map[string]interface{}{"k": 7}}, nil},
		{"base struct", base, map[string]interface{}{"Name": "base-name", "Count": 77, "Extra": 2.5}, nil},
		{"nil object", nil, map[string]interface{}{}, nil},
		{"record type A again", c04RecA(), map[string]interface{}{"Failures": 3, "Limit": 5, "Host": "a"}, nil},
	}
	names := []string{"Name", "Count", "Extra", "C04Base", "Int", "I64", "F32", "F64", "S", "B", "T", "IS", "SS", "FS", "BS", "Empty", "M", "I8", "U", "P", "Ch", "Fn", "Any", "Inner", "Mixed", "Failures", "Limit", "Host", "Nothing", "_id", "__v", "_", "created", "small", "mu"}
	add := func(kind, script, input, want, got string) {
		if len(rep.Violations) < 16 {
			rep.Violations = append(rep.Violations, racVio{Kind: kind, Script: script, Input: input, Expected: want, Got: got})
		}
	}
	for _, optimize := range []bool{true, false} {
		for _, name := range names {
			src := "return " + name + ";"
			rep.Programs++
			rep.count(src)
			re, err := newRacEval(src, optimize)
			if err != nil {
				add("field", src, "", "accepted", err.Error())
				continue
			}
			// several passes over the objects, in two orders, on the one evaluator
			order := []int{}
			for i := range cases {
				order = append(order, i)
			}
			for i := len(cases) - 1; i >= 0; i-- {
				order = append(order, i)
			}
			// the order in which a map yields its keys changes from one walk to the next: many walks over the map
			// whose keys differ in the prefix only
			for i, c := range cases {
				if strings.Contains(c.desc, "$ prefix") && (name == "Name" || name == "Count") {
					for k := 0; k < 40; k++ {
						order = append(order, i)
					}
				}
			}
			for _, ci := range order {
				c := cases[ci]
				rep.Runs++
				var out object.Object
				var err error
				var pan interface{}
				func() {
					defer func() { pan = recover() }()
					out, err = re.e.Execute(c.obj)
				}()
				if pan != nil {
					add("field-panics", src, c.desc, "a value or an error", fmt.Sprint("panic: ", pan))
					continue
				}
				got := "error"
				if err == nil {
					got = showObj(out)
				}
				if w, ok := c.want[name]; ok {
					if got != showObj(c04Obj(w)) {
						add("field-value", src, c.desc, showObj(c04Obj(w)), got)
					}
					continue
				}
				if alts, ok := c.free[name]; ok {
					okv := got == "error" || got == "NULL:null"
					for _, a := range alts {
						if got == showObj(c04Obj(a)) {
							okv = true
						}
					}
					if !okv {
						add("field-unrepresentable", src, c.desc, "null, an error, or the value converted without loss", got)
					}
					continue
				}
				if got != "NULL:null" {
					add("field-absent", src, c.desc, "NULL:null", got)
				}
			}
			// a script variable of the same name takes precedence
			re.e.SetVariable(name, &object.String{Value: "from-variable"})
			if out, err := re.e.Execute(cases[0].obj); err != nil || showObj(out) != "STRING:from-variable" {
				add("variable-precedence", src, cases[0].desc+" with the variable "+name+" set", "STRING:from-variable", fmt.Sprint(showObj(out), " ", err))
			}
		}
	}
	// one evaluator prepared with one script after the other: each script still names its own fields
	for _, optimize := range []bool{true, false} {
		re, err := newRacEval("return Int;", optimize)
		if err != nil {
			add("field", "return Int;", "", "accepted", err.Error())
			continue
		}
		scripts := []string{"return S;", "return [F64, Int];", "return I64;", "return [S, B, Int];", "x = Int; return [SS, x];", "return Nothing;", "return [B, S];", "return Int;"}
		wants := []string{"STRING:héllo", "ARRAY:[10000000000000000, -3]", "INTEGER:1099511627776", "ARRAY:[héllo, true, -3]", "ARRAY:[[b, a, ], -3]", "NULL:null", "ARRAY:[true, héllo]", "INTEGER:-3"}
		for round := 0; round < 2; round++ {
			for i, src := range scripts {
				re.e.Script = src
				var perr error
				if optimize {
					perr = re.e.Prepare()
				} else {
					perr = re.e.Prepare([]byte{NoOptimize})
				}
				rep.Runs++
				got := "error"
				if perr != nil {
					got = "rejected: " + perr.Error()
				} else if out, err := re.e.Execute(kinds); err == nil {
					got = showObj(out)
				}
				if got != wants[i] {
					add("field-after-another-script", src, fmt.Sprintf("optimize=%v: the evaluator was prepared with other scripts before (round %d)", optimize, round+1), wants[i], got)
				}
			}
		}
	}
	for _, v := range rep.Violations {
		t.Logf("RAC-VIOLATION kind=%s script=%q input=%s expected %s got %s", v.Kind, v.Script, v.Input, v.Expected, v.Got)
	}
}
