//go:build verif

package evalfilter

// Bounded support for C06 (and C07): scripts about functions and scopes with the results the property
// states - parameters, `local` variables and loop variables exist for the duration of the call or
// loop only, whichever way it is left; assignments to other names are global; calls before the
// definition, recursion, wrong argument counts, unknown functions, built-ins before user-defined
// functions of the same name - each as a sequence of runs on one evaluator (a run that fails, or
// returns from inside a loop, leaves nothing behind for the next), optimised and not.
// (Until the repair a406f37 a parameter, local or loop variable whose name was bound in a scope further
// out overwrote that variable; those cases are part of the list now.)

import (
	"fmt"
	"os"
	"testing"

	"github.com/skx/evalfilter/v2/object"
)

type c06Run struct {
	obj  map[string]interface{}
	want string // printed result, or "error"
	vars map[string]string
}

func TestRAC_C06(t *testing.T) {
	rep := &racReport{Property: "C06", Seed: envInt("VERIF_SEED", 0)}
	defer rep.write()
	if devnull, err := os.OpenFile(os.DevNull, os.O_WRONLY, 0); err == nil {
		saved := os.Stdout
		os.Stdout = devnull
		defer func() { os.Stdout = saved }()
	}
	none := map[string]interface{}{}
	cases := []struct {
		src  string
		runs []c06Run
	}{
		{"function f(a) { return a + 1; } a = 10; r = f(1); return [r, a];", []c06Run{{none, "ARRAY:[2, 10]", map[string]string{"a": "INTEGER:10", "r": "INTEGER:2"}}}},
		{"function f() { local t; t = 5; return t; } t = 1; r = f(); return [r, t];", []c06Run{{none, "ARRAY:[5, 1]", map[string]string{"t": "INTEGER:1"}}}},
		{"function f() { g = 7; return 0; } f(); return g;", []c06Run{{none, "INTEGER:7", map[string]string{"g": "INTEGER:7"}}}},
		{"return f(2); function f(a) { return a * 2; }", []c06Run{{none, "INTEGER:4", map[string]string{"a": "NULL:null"}}}},
		{"function s(n) { if ( n <= 0 ) { return 0; } return n + s(n - 1); } return s(4);", []c06Run{{none, "INTEGER:10", map[string]string{"n": "NULL:null"}}}},
		{"function fact(n) { if ( n <= 1 ) { return 1; } return fact(n - 1) * n; } return fact(5);", []c06Run{{none, "INTEGER:120", map[string]string{"n": "NULL:null"}}}},
		{"function g(a) { local a; a = 2; return 0; } function f(a) { g(5); return a; } return f(1);", []c06Run{{none, "INTEGER:1", nil}}},
		{"function g(n) { n--; return n; } function f(n) { r = g(n); return [r, n]; } return f(10);", []c06Run{{none, "ARRAY:[9, 10]", nil}}},
		{"function f(a) { foreach a in [1, 2] { } return a; } return f(3);", []c06Run{{none, "INTEGER:3", nil}}},
		{"function g() { local x; x = 5; return 0; } function f(x) { g(); return x; } return f(3);", []c06Run{{none, "INTEGER:3", nil}}},
		{"function g() { foreach x in [7, 8] { } return 0; } function f(x) { g(); return x; } return f(3);", []c06Run{{none, "INTEGER:3", nil}}},
		{"function f(a) { foreach x in [1, 2] { a = a + x; } return a; } return f(10);", []c06Run{{none, "INTEGER:13", nil}}},
		{"function f() { local t; t = 1; foreach x in [1, 2] { t = t + x; } return t; } t = 50; return [f(), t];", []c06Run{{none, "ARRAY:[4, 50]", nil}}},
		{"function fib(n) { if ( n < 2 ) { return n; } return fib(n - 1) + fib(n - 2); } return fib(10);", []c06Run{{none, "INTEGER:55", nil}}},
		{"function f(a) { return a; } return f(1, 2);", []c06Run{{none, "error", nil}}},
		{"function f(a, b) { return a; } return f(1);", []c06Run{{none, "error", nil}}},
		{"return nosuch(1);", []c06Run{{none, "error", nil}}},
		{"function len(x) { return 99; } return len(\"ab\");", []c06Run{{none, "INTEGER:2", nil}}},
		{"function f() { x = 1; } f(); return 3;", []c06Run{{none, "INTEGER:3", map[string]string{"x": "INTEGER:1"}}}},
		{"function f(a) { foreach x in [1, 2, 3] { if ( x == 2 ) { return a; } } return 0; } a = 10; x = 20; r = f(5); return [r, a, x];",
			[]c06Run{{none, "ARRAY:[5, 10, 20]", map[string]string{"a": "INTEGER:10", "x": "INTEGER:20"}}, {none, "ARRAY:[5, 10, 20]", nil}}},
		{"function f(a) { foreach x in [1, 2] { foreach y in [3, 4] { if ( y == 4 ) { return a + x + y; } } } return 0; } return [f(100), f(200)];", []c06Run{{none, "ARRAY:[105, 205]", map[string]string{"a": "NULL:null", "x": "NULL:null", "y": "NULL:null"}}}},
		{"function f($n) { $n = $n + 1; return $n; } r = f(4); return [r, $n];", []c06Run{{none, "ARRAY:[5, null]", map[string]string{"$n": "NULL:null", "n": "NULL:null"}}}},
		{"n = 100; function f($n) { return $n; } return [f(5), n];", []c06Run{{none, "ARRAY:[5, 100]", nil}}},
		{"$n = 100; function f($n) { return $n + 1; } return [f(5), $n];", []c06Run{{none, "ARRAY:[6, 100]", nil}}},
		{"function f() { i = 0; while ( i < 5 ) { i++; if ( i == 3 ) { return i; } } return 0; } return f();", []c06Run{{none, "INTEGER:3", nil}}},
		{"function g(b) { return b * 2; } function f(a) { return g(a + 1) + a; } return f(3);", []c06Run{{none, "INTEGER:11", map[string]string{"a": "NULL:null", "b": "NULL:null"}}}},
		{"function f(Name) { if ( Fail ) { return 1 / 0; } return Name; } if ( Fail ) { return f(5); } return Name;",
			[]c06Run{{map[string]interface{}{"Name": "bob", "Fail": true}, "error", map[string]string{"Name": "NULL:null"}}, {map[string]interface{}{"Name": "bob", "Fail": false}, "STRING:bob", map[string]string{"Name": "NULL:null"}},
				{map[string]interface{}{"Name": "amy", "Fail": true}, "error", nil}, {map[string]interface{}{"Name": "amy", "Fail": false}, "STRING:amy", nil}}},
		{"if ( N == 1 ) { foreach x in [7, 8] { return x; } } return x;", []c06Run{{map[string]interface{}{"N": 1}, "INTEGER:7", map[string]string{"x": "NULL:null"}}, {map[string]interface{}{"N": 2}, "NULL:null", nil}}},
		{"foreach i, v in [5, 6] { if ( v == 6 ) { return i; } } return -1;", []c06Run{{none, "INTEGER:1", map[string]string{"i": "NULL:null", "v": "NULL:null"}}, {none, "INTEGER:1", nil}}},
		{"function f(a) { return nosuch(a); } if ( Fail ) { f(9); } return a;", []c06Run{{map[string]interface{}{"Fail": true}, "error", map[string]string{"a": "NULL:null"}}, {map[string]interface{}{"Fail": false}, "NULL:null", nil}}},
		{"function f(a) { panic(\"x\"); } if ( Fail ) { f(9); } return a;", []c06Run{{map[string]interface{}{"Fail": true}, "error", map[string]string{"a": "NULL:null"}}, {map[string]interface{}{"Fail": false}, "NULL:null", nil}}},
		{"function f(a) { return hostfail(a); } if ( Fail ) { f(9); } return a;", []c06Run{{map[string]interface{}{"Fail": true}, "error", map[string]string{"a": "NULL:null"}}, {map[string]interface{}{"Fail": false}, "NULL:null", nil}}},
		{"function f(a) { local b; b = a * 2; return b; } function g(c) { return f(c) + f(c + 1); } return [g(1), g(2)];", []c06Run{{none, "ARRAY:[6, 10]", map[string]string{"a": "NULL:null", "b": "NULL:null", "c": "NULL:null"}}}},
		{"c = 0; function bump() { c = c + 1; return c; } bump(); bump(); return c;", []c06Run{{none, "INTEGER:2", map[string]string{"c": "INTEGER:2"}}, {none, "INTEGER:2", nil}}},
		{"function f(a, b, c) { return [c, b, a]; } return f(1, \"two\", 3.5);", []c06Run{{none, "ARRAY:[3.5, two, 1]", nil}}},
		{"function f() { return; } return 1;", []c06Run{{none, "rejected", nil}}},
	}
	add := func(kind, script, input, want, got string) {
		if len(rep.Violations) < 16 {
			rep.Violations = append(rep.Violations, racVio{Kind: kind, Script: script, Input: input, Expected: want, Got: got})
		}
	}
	for _, c := range cases {
		for _, optimize := range []bool{true, false} {
			rep.Programs++
			rep.count(c.src)
			re, err := newRacEval(c.src, optimize)
			re.e.AddFunction("hostfail", func(args []object.Object) object.Object { panic("host function failed") })
			if err == nil {
				// functions registered after Prepare are seen by the machine as well
				err = nil
			}
			if err != nil {
				if c.runs[0].want != "rejected" {
					add("scopes", c.src, fmt.Sprintf("optimize=%v", optimize), "accepted", "rejected: "+err.Error())
				}
				continue
			}
			if c.runs[0].want == "rejected" {
				add("scopes", c.src, fmt.Sprintf("optimize=%v", optimize), "rejected by Prepare", "accepted")
				continue
			}
			for ri, r := range c.runs {
				rep.Runs++
				got := "error"
				var pan interface{}
				func() {
					defer func() { pan = recover() }()
					if out, err := re.e.Execute(r.obj); err == nil {
						got = showObj(out)
					}
				}()
				if pan != nil {
					got = fmt.Sprint("panic: ", pan)
				}
				if got != r.want {
					add("scopes", c.src, fmt.Sprintf("optimize=%v run %d on %v", optimize, ri+1, r.obj), r.want, got)
					break
				}
				for name, want := range r.vars {
					if g := showObj(re.e.GetVariable(name)); g != want {
						add("scopes-left-behind", c.src, fmt.Sprintf("optimize=%v after run %d on %v: GetVariable(%q)", optimize, ri+1, r.obj, name), want, g)
					}
				}
			}
		}
	}
	for _, v := range rep.Violations {
		t.Logf("RAC-VIOLATION kind=%s script=%q input=%s expected %s got %s", v.Kind, v.Script, v.Input, v.Expected, v.Got)
	}
}
