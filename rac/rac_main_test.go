//go:build verif

package evalfilter

// Bounded harness of /verif, part 3: the three bounded checks.
//   C02: generated control-flow programs run on the real engine agree with the reference interpreter
//        (result, host-call sequence, variables left) under all truth assignments and iterable shapes;
//   C03: the same script prepared with and without the optimizer is observably the same over a
//        sequence of runs (and leaves the same number of values on the machine's stack);
//   C18: every accepted script's code - optimised and not, main and function bodies - passes the
//        structural verifier (rac_wf_test.go).
// Everything here is bounded: RAC_N programs of nesting depth <= RAC_DEPTH from seed VERIF_SEED.

import (
	"math"
	"context"
	"encoding/json"
	"fmt"
	"math/rand"
	"os"
	"regexp"
	"sort"
	"strconv"
	"strings"
	"testing"
	"time"

	"github.com/skx/evalfilter/v2/object"
)

func envInt(name string, def int) int {
	if v, err := strconv.Atoi(os.Getenv(name)); err == nil {
		return v
	}
	return def
}

type racReport struct {
	Property   string   `json:"property"`
	Programs   int      `json:"programs"`
	Rejected   int      `json:"rejected_by_prepare"`
	Runs       int      `json:"runs"`
	Seed       int      `json:"seed"`
	MaxDepth   int      `json:"max_nesting_depth"`
	MaxSize    int      `json:"max_statements"`
	Distinct   int      `json:"distinct_nontrivial"` // distinct scripts holding at least one branching construct
	Samples    []string `json:"samples"`
	Violations []racVio `json:"violations"`
	Probes     []racVio `json:"probes"` // inputs of listed findings and whether each still fails
	Notes      []string `json:"notes"`
}

type racVio struct {
	ID       string `json:"id,omitempty"`    // probes: the name the finding is listed under
	Fails    bool   `json:"fails,omitempty"` // probes: the defect still shows
	Kind     string `json:"kind"`
	Script   string `json:"script"`
	Input    string `json:"input"`
	Expected string `json:"expected"`
	Got      string `json:"got"`
}

var racSeen = map[string]bool{}

// count: distinct scripts with at least one branching construct are the non-trivial cases
func (r *racReport) count(src string) {
	if racSeen[src] {
		return
	}
	racSeen[src] = true
	if strings.Contains(src, "if (") || strings.Contains(src, "while (") || strings.Contains(src, "foreach ") || strings.Contains(src, "switch (") || strings.Contains(src, " ? ") {
		r.Distinct++
		if len(r.Samples) < 3 && len(src) < 700 {
			r.Samples = append(r.Samples, src)
		}
	}
}

func (r *racReport) write() {
	if p := os.Getenv("RAC_OUT"); p != "" {
		data, _ := json.MarshalIndent(r, "", " ")
		os.WriteFile(p, data, 0644)
	}
}

// the host object: four booleans, two integers and three iterables of the given shape
func racObject(bits int, shape int) (map[string]interface{}, map[string]rval, string) {
	obj := map[string]interface{}{}
	ref := map[string]rval{}
	for i, n := range boolFields {
		b := bits&(1<<uint(i)) != 0
		obj[n] = b
		ref[n] = rBool(b)
	}
	ns := []int{0, 3, -2}
	ms := []int{5, 1, 70000}
	obj["N"], ref["N"] = ns[shape], rInt(int64(ns[shape]))
	obj["M"], ref["M"] = ms[shape], rInt(int64(ms[shape]))
	var L []int
	var S string
	H := map[string]interface{}{}
	rh := rval{k: 'h'}
	switch shape {
	case 1:
		L, S = []int{7}, "q"
		H["k"] = 4
		rh.keys, rh.a = []rval{rStr("k")}, []rval{rInt(4)}
	case 2:
		L, S = []int{3, 1, 2}, "abλ"
		H["b"], H["a"], H["c"] = 2, 1, 3
		rh.keys, rh.a = []rval{rStr("a"), rStr("b"), rStr("c")}, []rval{rInt(1), rInt(2), rInt(3)}
	default:
		L = []int{}
	}
	obj["L"], obj["S"], obj["H"] = L, S, H
	obj["F"] = []float64{2.5, 0.1, 1e16}[shape]
	obj["Q"] = math.NaN()
	var rl []rval
	for _, x := range L {
		rl = append(rl, rInt(int64(x)))
	}
	ref["L"], ref["S"], ref["H"] = rArr(rl), rStr(S), rh
	return obj, ref, fmt.Sprintf("B=%04b shape=%d (N=%d M=%d L=%v S=%q H=%v)", bits, shape, ns[shape], ms[shape], L, S, H)
}

type racEval struct {
	e     *Eval
	trace []string
}

func showObj(o object.Object) string {
	if o == nil {
		return "<nil>"
	}
	return string(o.Type()) + ":" + o.Inspect()
}

func newRacEval(script string, optimize bool) (*racEval, error) {
	re := &racEval{e: New(script)}
	re.e.AddFunction("trace", func(args []object.Object) object.Object {
		var p []string
		for _, a := range args {
			p = append(p, showObj(a))
		}
		re.trace = append(re.trace, "trace("+strings.Join(p, ", ")+")")
		return &object.Void{}
	})
	re.e.AddFunction("id", func(args []object.Object) object.Object {
		if len(args) != 1 {
			return &object.Null{}
		}
		re.trace = append(re.trace, "id("+showObj(args[0])+")")
		return args[0]
	})
	re.e.SetContext(context.Background())
	var err error
	if optimize {
		err = re.e.Prepare()
	} else {
		err = re.e.Prepare([]byte{NoOptimize})
	}
	return re, err
}

// racTimedOut: some run hit the per-run deadline (only a derailed loop does); the verdict of the
// program at hand is then undetermined unless a longer run confirms it
var racTimedOut bool
var racDeadline = 2 * time.Second

func (re *racEval) run(obj interface{}, watch []string) observed {
	re.trace = nil
	ctx, cancel := context.WithTimeout(context.Background(), racDeadline)
	re.e.machine.SetContext(ctx)
	out, err := re.e.Execute(obj)
	cancel()
	if err != nil && strings.Contains(err.Error(), "timeout during execution") {
		racTimedOut = true
	}
	obs := observed{vars: map[string]string{}}
	if err != nil {
		obs.failed = true
	} else {
		obs.result = showObj(out)
	}
	obs.trace = re.trace
	for _, n := range watch {
		obs.vars[n] = showObj(re.e.GetVariable(n))
	}
	return obs
}

func usesBools(src string) bool {
	return strings.Contains(src, "B0") || strings.Contains(src, "B1") || strings.Contains(src, "B2") || strings.Contains(src, "B3")
}

// ---- shrinking: drop statements while the failure persists -------------------------------------------

func cloneBlock(b []*gStmt) []*gStmt {
	var out []*gStmt
	for _, s := range b {
		c := *s
		c.blks = nil
		for _, x := range s.blks {
			c.blks = append(c.blks, cloneBlock(x))
		}
		c.els = cloneBlock(s.els)
		c.def = cloneBlock(s.def)
		c.cases = nil
		for _, k := range s.cases {
			kc := *k
			kc.body = cloneBlock(k.body)
			c.cases = append(c.cases, &kc)
		}
		out = append(out, &c)
	}
	return out
}

// all (block, index) positions, addressed by a path so that a clone can be edited
func countStmts(b []*gStmt) int {
	n := 0
	for _, s := range b {
		n++
		for _, x := range s.blks {
			n += countStmts(x)
		}
		n += countStmts(s.els) + countStmts(s.def)
		for _, k := range s.cases {
			n += countStmts(k.body)
		}
	}
	return n
}

// removeNth removes the n-th statement (pre-order) from a clone of b
func removeNth(b []*gStmt, n *int) ([]*gStmt, bool) {
	for i, s := range b {
		if *n == 0 {
			*n = -1
			return append(append([]*gStmt{}, b[:i]...), b[i+1:]...), true
		}
		*n--
		for j := range s.blks {
			if nb, ok := removeNth(s.blks[j], n); ok {
				s.blks[j] = nb
				return b, true
			}
		}
		if nb, ok := removeNth(s.els, n); ok {
			s.els = nb
			return b, true
		}
		if nb, ok := removeNth(s.def, n); ok {
			s.def = nb
			return b, true
		}
		for _, k := range s.cases {
			if nb, ok := removeNth(k.body, n); ok {
				k.body = nb
				return b, true
			}
		}
	}
	return b, false
}

func shrink(prog []*gStmt, fails func([]*gStmt) bool) []*gStmt {
	cur := prog
	for changed := true; changed; {
		changed = false
		for i := countStmts(cur) - 1; i >= 0; i-- {
			c := cloneBlock(cur)
			n := i
			c2, ok := removeNth(c, &n)
			if !ok {
				continue
			}
			if fails(c2) {
				cur = c2
				changed = true
			}
		}
	}
	return cur
}

// decide runs one check; a verdict reached while some run hit its deadline is re-established with a
// generous deadline before it counts (a loaded machine must not turn into a false alarm)
func decide(check func() *racVio) *racVio {
	racTimedOut = false
	v := check()
	if v != nil && racTimedOut {
		save := racDeadline
		racDeadline = 30 * time.Second
		racTimedOut = false
		v = check()
		racDeadline = save
	}
	return v
}

// ---- C02 ---------------------------------------------------------------------------------------------------

// checkC02 runs one program under every truth assignment and iterable shape; returns the first mismatch.
func checkC02(prog []*gStmt, watch []string, rep *racReport) *racVio {
	src := blockSrc(prog, "")
	nb := 1
	if usesBools(src) {
		nb = 16
	}
	for _, optimize := range []bool{true, false} {
		for shape := 0; shape < 3; shape++ {
			for bits := 0; bits < nb; bits++ {
				re, err := newRacEval(src, optimize)
				if err != nil {
					if rep != nil {
						rep.Rejected++
						if len(rep.Notes) < 5 {
							rep.Notes = append(rep.Notes, "rejected by Prepare: "+err.Error()+" :: "+src)
						}
					}
					return nil
				}
				obj, ref, desc := racObject(bits, shape)
				want := refRun(prog, ref, map[string]rval{}, watch)
				got := re.run(obj, watch)
				if rep != nil {
					rep.Runs++
				}
				if !sameObserved(want, got, false) {
					return &racVio{Kind: fmt.Sprintf("engine-vs-reference(optimize=%v)", optimize), Script: src, Input: desc, Expected: want.String(), Got: got.String()}
				}
			}
		}
	}
	return nil
}

func TestRAC_C02(t *testing.T) {
	seed := envInt("VERIF_SEED", 0)
	rep := &racReport{Property: "C02", Seed: seed, MaxDepth: envInt("RAC_DEPTH", 3), MaxSize: envInt("RAC_SIZE", 14)}
	defer rep.write()
	r := rand.New(rand.NewSource(int64(seed) + 1000))
	n := envInt("RAC_N", 600)
	seen := map[string]bool{}
	for i := 0; i < n; i++ {
		prog, watch := genProgram(r, 1+i%rep.MaxDepth, rep.MaxSize, i%4 == 0)
		rep.Programs++
		rep.count(blockSrc(prog, ""))
		v := decide(func() *racVio { return checkC02(prog, watch, rep) })
		if v == nil {
			continue
		}
		small := shrink(prog, func(p []*gStmt) bool {
			racTimedOut = false
			return len(p) > 0 && checkC02(p, watch, nil) != nil && !racTimedOut
		})
		v = decide(func() *racVio { return checkC02(small, watch, nil) })
		if v == nil || seen[v.Script] {
			continue
		}
		seen[v.Script] = true
		rep.Violations = append(rep.Violations, *v)
		if len(rep.Violations) >= 12 {
			break
		}
	}
	// directed cases the generator does not reach: switches with many arms and the default not last, else-blocks
	// that go on after an inner if, chains of else-if - with the statements the language selects, in order
	manyArms := func(first string) string {
		var sb strings.Builder
		sb.WriteString("switch ( S ) {\n" + first)
		for i := 0; i < 6; i++ {
			fmt.Fprintf(&sb, "  case \"x%d\" { trace(\"x%d\"); }\n", i, i)
		}
		sb.WriteString("  case \"abλ\" { trace(\"literal\"); }\n  case /^a/ { trace(\"regexp\"); }\n  case \"a\" + \"bλ\" { trace(\"expression\"); }\n")
		for i := 6; i < 12; i++ {
			fmt.Fprintf(&sb, "  case \"x%d\" { trace(\"x%d\"); }\n", i, i)
		}
		sb.WriteString("}\nreturn 1;\n")
		return sb.String()
	}
	dup := "switch ( 1 ) {\n  default { trace(\"d\"); }\n"
	for _, c := range "abcdefghijklmnop" {
		dup += fmt.Sprintf("  case 1 { trace(\"%c\"); }\n", c)
	}
	dup += "}\nreturn 2;\n"
	for _, dc := range []struct {
		src   string
		trace []string
		res   string
	}{
		{manyArms("  default { trace(\"default\"); }\n"), []string{"trace(STRING:literal)"}, "INTEGER:1"},
		{manyArms(""), []string{"trace(STRING:literal)"}, "INTEGER:1"},
		{strings.Replace(manyArms(""), "  case /^a/", "  default { trace(\"default\"); }\n  case /^a/", 1), []string{"trace(STRING:literal)"}, "INTEGER:1"},
		{strings.Replace(manyArms("  default { trace(\"default\"); }\n"), "\"abλ\" {", "\"nope\" {", 1), []string{"trace(STRING:regexp)"}, "INTEGER:1"},
		{dup, []string{"trace(STRING:a)"}, "INTEGER:2"},
		{"if ( B0 ) { trace(1); } else { if ( B1 ) { trace(2); } trace(3); trace(4); }\ntrace(5);\nreturn 7;\n", []string{"trace(INTEGER:2)", "trace(INTEGER:3)", "trace(INTEGER:4)", "trace(INTEGER:5)"}, "INTEGER:7"},
		{"if ( B0 ) { trace(1); } else if ( B0 ) { trace(2); } else if ( B1 ) { trace(3); } else if ( B1 ) { trace(4); } else { trace(5); }\ntrace(6);\n", []string{"trace(INTEGER:3)", "trace(INTEGER:6)"}, "NULL:null"},
		{"v0 = 0;\nwhile ( v0 < 3 ) { if ( B0 ) { trace(1); } else { if ( v0 == 1 ) { trace(2); } v0 = v0 + 1; } }\nreturn v0;\n", []string{"trace(INTEGER:2)"}, "INTEGER:3"},
	} {
		for _, optimize := range []bool{true, false} {
			rep.Programs++
			rep.Runs++
			re, err := newRacEval(dc.src, optimize)
			if err != nil {
				rep.Violations = append(rep.Violations, racVio{Kind: "directed-case-rejected", Script: dc.src, Expected: "accepted", Got: err.Error()})
				continue
			}
			obj, _, desc := racObject(2, 2) // B1 true, the others false; S = "abλ"
			o := re.run(obj, nil)
			got := o.result
			if o.failed {
				got = "error"
			}
			if got != dc.res || fmt.Sprint(o.trace) != fmt.Sprint(dc.trace) {
				rep.Violations = append(rep.Violations, racVio{Kind: fmt.Sprintf("directed-case(optimize=%v)", optimize), Script: dc.src, Input: desc, Expected: fmt.Sprint(dc.res, " ", dc.trace), Got: fmt.Sprint(got, " ", o.trace)})
			}
		}
	}
	for _, v := range rep.Violations {
		t.Logf("RAC-VIOLATION kind=%s input=%s\nscript:\n%sexpected: %s\ngot:      %s", v.Kind, v.Input, v.Script, v.Expected, v.Got)
	}
	// the inputs of the listed findings (kept out of the generated programs): do they still fail?
	each := &gStmt{op: "foreach", name: "x1", e: &gExpr{op: "arr", list: []*gExpr{{op: "ilit", i: 1}, {op: "ilit", i: 2}}},
		blks: [][]*gStmt{{{op: "expr", e: &gExpr{op: "id", l: &gExpr{op: "var", s: "x1"}}}, {op: "inc", name: "v0"}}}}
	p1 := []*gStmt{{op: "assign", name: "v0", e: &gExpr{op: "ilit", i: 0}}, each, {op: "return", e: &gExpr{op: "var", s: "v0"}}}
	inner := &gStmt{op: "foreach", name: "x2", e: &gExpr{op: "fld", s: "S"}, blks: [][]*gStmt{{{op: "inc", name: "v0"}}}}
	outer := &gStmt{op: "foreach", name: "x1", e: &gExpr{op: "fld", s: "S"}, blks: [][]*gStmt{{inner}}}
	p2 := []*gStmt{{op: "assign", name: "v0", e: &gExpr{op: "ilit", i: 0}}, outer, {op: "return", e: &gExpr{op: "var", s: "v0"}}}
	for _, pr := range []struct {
		id   string
		prog []*gStmt
	}{{"foreach-value-statement", p1}, {"nested-foreach-same-object", p2}} {
		v := decide(func() *racVio { return checkC02(pr.prog, []string{"v0"}, nil) })
		pv := racVio{ID: pr.id, Script: blockSrc(pr.prog, "")}
		if v != nil {
			pv.Fails, pv.Kind, pv.Input, pv.Expected, pv.Got = true, v.Kind, v.Input, v.Expected, v.Got
		}
		rep.Probes = append(rep.Probes, pv)
	}
}

// ---- extended programs (functions and more operators) for C03 and C18 ---------------------------------------

func genExtended(r *rand.Rand, maxDepth, maxSize int) (string, []string) {
	prog, watch := genProgram(r, maxDepth, maxSize, r.Intn(2) == 0)
	var sb strings.Builder
	nf := r.Intn(3)
	for f := 0; f < nf; f++ {
		g := &gen{r: r, maxDepth: 2, maxSize: 8, consts: r.Intn(2) == 0, intVars: []string{"a", "b", "t"}}
		body := g.block(2)
		fmt.Fprintf(&sb, "function f%d(a, b) {\n  local t;\n  t = a + %d;\n%s", f, r.Intn(5), blockSrc(body, "  "))
		if r.Intn(3) != 0 {
			fmt.Fprintf(&sb, "  return t * %d + b;\n", r.Intn(4))
		}
		sb.WriteString("}\n")
	}
	sb.WriteString(blockSrc(prog, ""))
	// extra statements the reference interpreter does not model
	extras := []string{
		"if ( len(S) > 1 ) { trace(len(S)); }\n",
		"if ( S ~= /b/ ) { trace(1); } else { trace(2); }\n",
		"if ( 2 in L ) { trace(3); }\n",
		"trace(N ** 2);\n", "trace(9 % 4);\n", "trace(√N);\n", "trace(3 * 2 ** 2);\n",
		"trace(1.5 + 2);\n", "trace(L[0]);\n", "trace(\"s\" + S);\n",
		"trace(true ? 3 : 4 + 5);\n", "trace(B0 ? 1 + 2 : 3 + 4);\n", "v0 = B1 ? 7 : 2 * 3;\n", "trace((B2 ? 2 : 3) + 4);\n",
		"trace(1 + 2 == 3);\n", "trace(2 * 3 != 6);\n", "if ( 1 + 1 == 2 ) { trace(11); } else { return 5; }\n",
		"if ( 1 == 2 ) { return 9; } else { trace(12); }\n", "if ( false ) { trace(13); }\n", "while ( 0 ) { trace(14); }\n",
		"trace(3 - 5 + 10);\n", "trace(300 * 300 + 1);\n", "trace([1, 2 - 3 + 4]);\n", "trace(N * (300 * 300 + 1));\n", "trace(65535 + 1);\n", "trace(65534 + 1 - 1);\n",
		"trace(7 / 2);\n", "trace(8 / 2 / 2);\n", "trace(2 - 3);\n", "trace(0 - 1 == -1);\n",
		"if ( B0 ? true : false ) { trace(21); } else { trace(22); }\n", "if ( B1 ? false : true ) { trace(23); }\n", "if ( B2 ? B3 : false ) { trace(24); }\n",
		"if ( (N > 0 ? 1 : 2) + 3 == 4 ) { trace(25); }\n", "trace((B0 ? 10 : 20) * 4);\n", "trace((B1 ? 7 : 9) == 9);\n", "v0 = 0;\nwhile ( v0 < 2 ? true : false ) { v0++; }\n",
		"trace(8 - 4 / 0);\n", "trace(6 / 0 + 1);\n", "trace([1, 4 / 0]);\n", "trace(9 % 0);\n", "function never() { return 1 % 0; }\n",
		"trace(3 + √2);\n", "trace(√2 + 3);\n", "trace(2 * √3 - 1);\n", "trace(!-N);\n",
		"trace(!!N);\n", "trace(!!S);\n", "if ( !!L ) { trace(26); }\n", "trace(!(!M));\n",
		"v0 += 1 + 2;\n", "v0 -= N * 2;\n", "v0 *= 2;\n", "v0 /= 1 + 1;\n", "v0 += (B0 ? 1 : 2);\n", "v0++;\n", "v0--;\n",
		"function g24() { 24; }\ng24();\n", "function g280() { 280; }\ng280();\n", "function gv() { v0 = 1; }\ngv();\n",
		"function gi(a) { if ( a > 1 ) { return 24; } }\ntrace(gi(2));\n",
		// folded values on both sides of the limits of the 16-bit immediate operand
		"trace(60 * 60 * 10);\n", "trace(200 * 200);\n", "trace(30000 + 2768);\n", "trace(32767 + 1);\n", "trace(40000 + 1);\n", "trace(65534 - 1 + 1);\n", "trace(2 ** 15);\n", "trace(0 - 32768);\n",
		// the same pooled literal (floats, integers above the immediate range) more than once, with and without a sign
		"trace(2.5 || -2.5);\n", "if ( -2.5 || 2.5 ) { trace(31); }\n", "v0 = -70000;\nif ( 70000 ) { trace(32); }\n", "trace(-1.5 * 2);\ntrace(1.5);\n", "trace(70000 + -70000);\n",
		"function gn() { return -2.5; }\ntrace(gn());\ntrace(2.5);\n", "trace(-(2.5));\ntrace(2.5 > 0);\n", "trace(!2.5);\ntrace(2.5);\n",
		// powers whose exact value does not fit: the machine computes them in floating point
		"trace(2 ** 64);\n", "trace(4 ** 32);\n", "trace(16 ** 16);\n", "trace(10 ** 64);\n", "trace(2 ** 63);\n", "trace(3 ** 40);\n", "trace(2 ** 62);\n", "trace(7 % 3);\n", "trace(0 - 7 % 3);\n", "trace(7 ** 0);\n", "trace(0 ** 0);\n",
		"if ( 256 ** 8 == 0 ) { trace(51); } else { trace(52); }\n", "trace(2 ** -1);\n", "trace(12 % 5 ** 2);\n",
		// conditions whose last instruction carries an operand that looks like an opcode
		"if ( 13 ) { trace(53); } else { trace(54); }\n", "if ( 12 ) { trace(55); }\n", "v0 = 0;\nwhile ( 13 ) { v0++; if ( v0 > 2 ) { return v0; } }\n", "if ( [1, 2, 3, 4, 5, 6, 7, 8, 9, 10, 11, 12] ) { trace(56); }\n",
		"if ( [1, 2, 3, 4, 5, 6, 7, 8, 9, 10, 11, 12, 13] ) { trace(57); } else { trace(58); }\n", "if ( id(1, 2, 3, 4, 5, 6, 7, 8, 9, 10, 11, 12, 13) ) { trace(59); } else { trace(60); }\n",
		// comparisons with a NaN are all false: a negated comparison is not the opposite comparison
		"trace(!(Q < 1));\n", "if ( !(Q >= 1) ) { trace(41); }\n", "trace(!(Q == Q));\n", "trace(!(F > Q) ? 1 : 2);\n", "v0 = !(Q <= N) ? 3 : 4;\n", "while ( !(Q > 0) ) { trace(42); return 1; }\n",
		"trace(!(N < 1));\n", "trace(!(S == \"q\"));\n", "if ( !(M != 5) ) { trace(43); }\n", "trace(!(S ~= /b/));\n", "trace(!(S !~ /b/));\n",
		// float arithmetic does not re-associate
		"trace(0.1 * 3 * 5);\n", "trace(0.1 + 0.2 + 0.3);\n", "trace(10000000000000000.0 + 1 + 1);\n", "trace(F + 1 + 1);\n", "trace(F * 3 * 5);\n",
	}
	for f := 0; f < nf; f++ {
		extras = append(extras, fmt.Sprintf("trace(f%d(%d, N));\n", f, r.Intn(4)), fmt.Sprintf("v0 = f%d(v0, %d);\n", f, r.Intn(4)))
	}
	ne := r.Intn(5)
	for i := 0; i < ne; i++ {
		sb.WriteString(extras[r.Intn(len(extras))])
	}
	if r.Intn(2) == 0 {
		sb.WriteString("return v0;\n")
	}
	return sb.String(), watch
}

// ---- C03 -----------------------------------------------------------------------------------------------------

func checkC03(src string, watch []string, rep *racReport) *racVio {
	a, errA := newRacEval(src, true)
	b, errB := newRacEval(src, false)
	if (errA == nil) != (errB == nil) {
		return &racVio{Kind: "prepare-differs", Script: src, Expected: fmt.Sprint("unoptimised: ", errB), Got: fmt.Sprint("optimised: ", errA)}
	}
	if errA != nil {
		if rep != nil {
			rep.Rejected++
			if len(rep.Notes) < 5 {
				rep.Notes = append(rep.Notes, "rejected by Prepare: "+errA.Error()+" :: "+src)
			}
		}
		return nil
	}
	// a sequence of runs on the same two evaluators
	seq := [][2]int{{0, 0}, {5, 2}, {10, 1}, {15, 2}, {3, 0}, {12, 2}}
	for i, s := range seq {
		obj, _, desc := racObject(s[0], s[1])
		oa := a.run(obj, watch)
		ob := b.run(obj, watch)
		if rep != nil {
			rep.Runs += 2
		}
		if !sameObserved(ob, oa, true) {
			return &racVio{Kind: "optimised-vs-unoptimised", Script: src, Input: fmt.Sprintf("run %d of the sequence: %s", i+1, desc), Expected: "unoptimised: " + ob.String(), Got: "optimised:   " + oa.String()}
		}
		if !oa.failed {
			da, db := a.e.machine.VerifStackDepth(), b.e.machine.VerifStackDepth()
			if da != db {
				return &racVio{Kind: "stack-residue-differs", Script: src, Input: fmt.Sprintf("run %d of the sequence: %s", i+1, desc), Expected: fmt.Sprintf("unoptimised leaves %d value(s)", db), Got: fmt.Sprintf("optimised leaves %d value(s)", da)}
			}
		}
	}
	// Prepare again on both evaluators (C19: the same script always gives the same program): one more run
	if a.e.Prepare() != nil || b.e.Prepare([]byte{NoOptimize}) != nil {
		return &racVio{Kind: "second-prepare-fails", Script: src, Expected: "Prepare succeeds again", Got: "Prepare failed on the second call"}
	}
	obj, _, desc := racObject(6, 2)
	oa := a.run(obj, watch)
	ob := b.run(obj, watch)
	if !sameObserved(ob, oa, true) {
		return &racVio{Kind: "after-second-prepare", Script: src, Input: "run after a second Prepare on both evaluators: " + desc, Expected: "unoptimised: " + ob.String(), Got: "optimised:   " + oa.String()}
	}
	// and against evaluators prepared once
	c, errC := newRacEval(src, false)
	if errC == nil {
		for _, s := range seq {
			o, _, _ := racObject(s[0], s[1])
			c.run(o, watch)
		}
		oc := c.run(obj, watch)
		if !sameObserved(oc, ob, true) {
			return &racVio{Kind: "second-prepare-changes-the-program", Script: src, Input: desc, Expected: "prepared once: " + oc.String(), Got: "prepared twice: " + ob.String()}
		}
		// a Prepare that is refused (the new text parses, the compiler rejects it after it has emitted code and
		// constants) leaves the accepted program as it was: one more run of all three
		for _, x := range []*racEval{a, b} {
			x.e.Script = rejectedPrefix + src
			err := x.e.Prepare()
			x.e.Script = src
			if err == nil {
				return &racVio{Kind: "invalid-script-accepted", Script: rejectedPrefix + src, Expected: "an error from Prepare", Got: "accepted"}
			}
		}
		oa, ob, oc = a.run(obj, watch), b.run(obj, watch), c.run(obj, watch)
		if !(oa.failed && ob.failed) && (!sameObserved(oc, ob, true) || !sameObserved(oc, oa, true)) {
			return &racVio{Kind: "refused-prepare-damages-the-accepted-program", Script: src, Input: "run after Prepare refused " + strconv.Quote(rejectedPrefix) + " + script: " + desc,
				Expected: "never re-prepared: " + oc.String(), Got: "unoptimised: " + ob.String() + "\noptimised:   " + oa.String()}
		}
	}
	// NoOptimize is honoured whatever the evaluator was prepared with before (C20: the flag disables the
	// optimizer and nothing else): the optimised evaluator, prepared again with NoOptimize, holds the program
	// of the one that was never optimised; and the other way round
	if a.e.Prepare([]byte{NoOptimize}) == nil && b.e.Prepare([]byte{NoOptimize}) == nil {
		_, ba, _ := a.e.machine.VerifProgram()
		_, bb, _ := b.e.machine.VerifProgram()
		if string(ba) != string(bb) {
			return &racVio{Kind: "nooptimize-not-honoured-after-an-optimised-prepare", Script: src, Expected: fmt.Sprintf("the unoptimised program (%d bytes)", len(bb)), Got: fmt.Sprintf("a program of %d bytes", len(ba))}
		}
		if x, errX := newRacEval(src, true); errX == nil && a.e.Prepare() == nil {
			_, bx, _ := x.e.machine.VerifProgram()
			_, ba, _ = a.e.machine.VerifProgram()
			if string(ba) != string(bx) {
				return &racVio{Kind: "optimiser-not-back-after-a-nooptimize-prepare", Script: src, Expected: fmt.Sprintf("the optimised program (%d bytes)", len(bx)), Got: fmt.Sprintf("a program of %d bytes", len(ba))}
			}
		}
	}
	return nil
}

// a script prefix which parses, makes the compiler emit code and constants, and is then refused by it
const rejectedPrefix = "trace(123456);\nv9 = \"zz\" + \"yy\";\nif ( v9 ) { trace(77.5); }\n3 += 1;\n"

// line-wise shrinking for scripts given as text (top-level lines that leave the braces balanced)
func shrinkLines(src string, fails func(string) bool) string {
	cur := src
	for changed := true; changed; {
		changed = false
		lines := strings.SplitAfter(cur, "\n")
		for i := len(lines) - 1; i >= 0; i-- {
			// a removable unit: line i up to the line that closes the braces it opens
			depth := 0
			j := i
			for ; j < len(lines); j++ {
				depth += strings.Count(lines[j], "{") - strings.Count(lines[j], "}")
				if depth <= 0 {
					break
				}
			}
			if depth != 0 || j >= len(lines) {
				continue
			}
			if i == j && strings.Contains(lines[i], " + 1;") && strings.HasPrefix(strings.TrimSpace(lines[i]), "w") {
				continue // the step of a while loop: removing it alone only makes the loop endless
			}
			cand := strings.Join(append(append([]string{}, lines[:i]...), lines[j+1:]...), "")
			if cand != "" && cand != cur && fails(cand) {
				cur = cand
				changed = true
				break
			}
		}
	}
	return cur
}

func TestRAC_C03(t *testing.T) {
	seed := envInt("VERIF_SEED", 0)
	rep := &racReport{Property: "C03", Seed: seed, MaxDepth: envInt("RAC_DEPTH", 3), MaxSize: envInt("RAC_SIZE", 14)}
	defer rep.write()
	r := rand.New(rand.NewSource(int64(seed) + 3000))
	n := envInt("RAC_N", 2500)
	seen := map[string]bool{}
	for i := 0; i < n; i++ {
		src, watch := genExtended(r, 1+i%rep.MaxDepth, rep.MaxSize)
		rep.Programs++
		rep.count(src)
		v := decide(func() *racVio { return checkC03(src, watch, rep) })
		if v == nil {
			continue
		}
		small := shrinkLines(src, func(s string) bool {
			racTimedOut = false
			x := checkC03(s, watch, nil)
			return x != nil && x.Kind == v.Kind && !racTimedOut
		})
		v = decide(func() *racVio { return checkC03(small, watch, nil) })
		if v == nil || seen[v.Script] {
			continue
		}
		seen[v.Script] = true
		rep.Violations = append(rep.Violations, *v)
		if len(rep.Violations) >= 12 {
			break
		}
	}
	// the size limits are applied to the code as compiled, with and without the optimizer alike: a script whose
	// code exceeds 65535 bytes before folding and fits afterwards (the baseline refuses it in both modes)
	{
		var sb strings.Builder
		sb.WriteString("c = 0;\nif ( B0 ) {\n")
		for i := 0; i < 5000; i++ {
			sb.WriteString("y = 2 * 3 + 4;\n")
		}
		sb.WriteString("}\nc = c + 1;\nreturn c;\n")
		src := sb.String()
		rep.Programs++
		if v := checkC03(src, []string{"c", "y"}, rep); v != nil && len(rep.Violations) < 12 {
			v.Script = "(5000 foldable statements inside an if block: generated script of " + strconv.Itoa(len(src)) + " bytes)"
			rep.Violations = append(rep.Violations, *v)
		}
	}
	for _, v := range rep.Violations {
		t.Logf("RAC-VIOLATION kind=%s input=%s\nscript:\n%s%s\n%s", v.Kind, v.Input, v.Script, v.Expected, v.Got)
	}
	// the input of the listed finding (kept out of the generated programs): does it still fail?
	src := "return √16;\n"
	v := decide(func() *racVio { return checkC03(src, nil, nil) })
	pv := racVio{ID: "sqrt-fold-type", Script: src}
	if v != nil {
		pv.Fails, pv.Kind, pv.Input, pv.Expected, pv.Got = true, v.Kind, v.Input, v.Expected, v.Got
	}
	rep.Probes = append(rep.Probes, pv)
	src2 := "return OPTIMIZE;\n"
	v2 := decide(func() *racVio { return checkC03(src2, nil, nil) })
	pv2 := racVio{ID: "optimize-variable-visible", Script: src2}
	if v2 != nil {
		pv2.Fails, pv2.Kind, pv2.Input, pv2.Expected, pv2.Got = true, v2.Kind, v2.Input, v2.Expected, v2.Got
	}
	rep.Probes = append(rep.Probes, pv2)
}

// ---- C18 -----------------------------------------------------------------------------------------------------

func checkC18(src string, rep *racReport) *racVio {
	for _, optimize := range []bool{true, false} {
		re, err := newRacEval(src, optimize)
		if err != nil {
			if rep != nil && optimize {
				rep.Rejected++
			}
			continue
		}
		if rep != nil {
			rep.Runs++
		}
		if errs := wfProgram(re.e); len(errs) > 0 {
			sort.Strings(errs)
			return &racVio{Kind: fmt.Sprintf("ill-formed-code(optimize=%v)", optimize), Script: src, Expected: "well-formed code", Got: strings.Join(errs, "; ")}
		}
		// the program the evaluator will execute is still the accepted one after a Prepare that was refused
		re.e.Script = rejectedPrefix + src
		err = re.e.Prepare()
		re.e.Script = src
		if err != nil {
			if errs := wfProgram(re.e); len(errs) > 0 {
				sort.Strings(errs)
				return &racVio{Kind: fmt.Sprintf("ill-formed-code-after-refused-prepare(optimize=%v)", optimize), Script: src, Expected: "well-formed code", Got: strings.Join(errs, "; ")}
			}
		}
	}
	return nil
}

func TestRAC_C18(t *testing.T) {
	seed := envInt("VERIF_SEED", 0)
	rep := &racReport{Property: "C18", Seed: seed, MaxDepth: envInt("RAC_DEPTH", 3), MaxSize: envInt("RAC_SIZE", 14)}
	defer rep.write()
	r := rand.New(rand.NewSource(int64(seed) + 18000))
	n := envInt("RAC_N", 4000)
	seen := map[string]bool{}
	kindOf := func(v *racVio) string {
		// the first error's shape (offsets removed)
		g := v.Got
		if i := strings.Index(g, ";"); i > 0 {
			g = g[:i]
		}
		return v.Kind + "|" + strings.Map(func(c rune) rune {
			if c >= '0' && c <= '9' {
				return -1
			}
			return c
		}, g)
	}
	for i := 0; i < n; i++ {
		src, _ := genExtended(r, 1+i%rep.MaxDepth, rep.MaxSize)
		rep.Programs++
		rep.count(src)
		v := checkC18(src, rep)
		if v == nil {
			continue
		}
		k := kindOf(v)
		small := shrinkLines(src, func(s string) bool { x := checkC18(s, nil); return x != nil && kindOf(x) == k })
		v = checkC18(small, nil)
		if v == nil || seen[k] {
			continue
		}
		seen[k] = true
		rep.Violations = append(rep.Violations, *v)
		if len(rep.Violations) >= 12 {
			break
		}
	}
	// function definitions in unusual places
	for _, src := range []string{
		"switch ( function f() { return \"a\" + \"b\"; } ) { default { return f(); } }",
		"if ( true ) { function h() { return \"e\" + \"f\"; } } return h();",
		"while ( false ) { function k() { return \"z\" + N; } } return k();",
		"foreach x in [1] { function m() { return \"q\" + \"r\"; } } return m();",
		"function outer() { function inner() { return \"i\" + \"j\"; } return inner(); } return outer();",
		"a = 1; a = 2; function late() { return \"l\" + a; } b = 3; c = \"x\"; return late() + c;",
		"switch ( N ) { case 1 { function c1() { return \"one\"; } } default { function d1() { return \"dflt\"; } } } return d1();",
		"v = true ? 1 : 2; function t() { return \"t\" + v; } return t();",
		strings.Repeat("a = 1;", 3) + "function f3() { return 42; } b = 2; c = 3; d = 4; return f3();",
		strings.Repeat("a = 1;", 9) + "function f9() { return 42; } b = 2; c = 3; d = 4; return f9();",
	} {
		rep.Programs++
		if v := checkC18(src, rep); v != nil && len(rep.Violations) < 12 {
			rep.Violations = append(rep.Violations, *v)
		}
	}
	// the 16-bit operand limits: a constant pool and a body that do not fit
	for _, big := range []struct {
		name string
		src  func() string
	}{
		{"65537 distinct constants", func() string {
			var sb strings.Builder
			for i := 0; i < 65537; i++ {
				fmt.Fprintf(&sb, "a = \"s%d\";\n", i)
			}
			sb.WriteString("if ( a == \"s65536\" ) { return 1; }\nreturn 2;\n")
			return sb.String()
		}},
		{"a jump across more than 65535 bytes", func() string {
			var sb strings.Builder
			sb.WriteString("if ( B0 ) {\n")
			for i := 0; i < 12000; i++ {
				sb.WriteString("a = 1 + N;\n")
			}
			sb.WriteString("}\nreturn 3;\n")
			return sb.String()
		}},
	} {
		if envInt("RAC_BIG", 1) == 0 {
			break
		}
		src := big.src()
		rep.Programs++
		if v := checkC18(src, rep); v != nil {
			v.Script = "(" + big.name + ": generated script of " + strconv.Itoa(len(src)) + " bytes)"
			v.Kind = "ill-formed-code(" + big.name + ")"
			rep.Violations = append(rep.Violations, *v)
		}
	}
	for _, v := range rep.Violations {
		t.Logf("RAC-VIOLATION kind=%s\nscript:\n%s\n%s", v.Kind, v.Script, v.Got)
	}
	// the inputs of the listed finding (kept out of the generated programs): do they still fail?
	for _, pr := range []struct{ id, src string }{
		{"assignment-used-as-value", "v0 = 1;\nreturn v0 = 3;\n"},
		{"assignment-used-as-value", "v0 = 1;\nif ( v0 = 3 ) { trace(1); }\n"},
		{"assignment-used-as-value", "v0 = 1;\nv1 = v0++;\n"},
	} {
		v := checkC18(pr.src, nil)
		pv := racVio{ID: pr.id, Script: pr.src}
		if v != nil {
			pv.Fails, pv.Kind, pv.Expected, pv.Got = true, v.Kind, v.Expected, v.Got
		}
		rep.Probes = append(rep.Probes, pv)
	}
}

// ---- C08 -----------------------------------------------------------------------------------------------------
// Bounded support for C08: the parser, the compiler and the optimizer run inside Prepare, which has no
// recover, and are only partly under panic-freedom contracts.  Scripts of four kinds - generated valid
// ones, the same with tokens deleted, duplicated or swapped, random sequences of the language's tokens,
// and random bytes - go through Prepare (both modes), Execute, Run and Dump; a panic that reaches the
// caller is a violation.

var soupTokens = []string{"(", ")", "{", "}", "[", "]", ",", ";", ".", "..", "=", "+=", "-=", "*=", "/=", "==", "!=", "<", "<=", ">", ">=",
	"+", "-", "*", "/", "%", "**", "!", "&&", "||", "~=", "!~", "?", ":", "++", "--", "√", "in",
	"if", "else", "while", "for", "foreach", "function", "return", "switch", "case", "default", "local", "true", "false",
	"a", "b", "f", "N", "S", "L", "0", "1", "2", "24", "70000", "1.5", `"s"`, `"a\"b"`, "'q'", "/x/", "/(?i)y/i", "// c\n", "#", "$", "@", "\\",
	"DEBUG", "OPTIMIZE", "/(?i/", "/(?/", "/(?:a|b/", "/[/", "/(/", "/a/x", "$a", "..", "1..", "√"}

func splitTokens(src string) []string {
	var out []string
	cur := ""
	flush := func() {
		if cur != "" {
			out = append(out, cur)
			cur = ""
		}
	}
	for _, r := range src {
		switch {
		case r == ' ' || r == '\n' || r == '\t':
			flush()
		case strings.ContainsRune("(){}[],;", r):
			flush()
			out = append(out, string(r))
		default:
			cur += string(r)
		}
	}
	flush()
	return out
}

func tryAPI(src string) (where string, what interface{}) {
	where = "New"
	defer func() {
		if r := recover(); r != nil {
			what = r
		}
	}()
	for _, optimize := range []bool{true, false} {
		e := New(src)
		e.AddFunction("trace", func(args []object.Object) object.Object { return &object.Void{} })
		e.AddFunction("id", func(args []object.Object) object.Object {
			if len(args) != 1 {
				return &object.Null{}
			}
			return args[0]
		})
		// a host function may call back into the evaluator it was registered with while a run is going on
		e.AddFunction("reenter", func(args []object.Object) object.Object {
			e.SetVariable("seen", &object.Integer{Value: 1})
			v := e.GetVariable("seen")
			e.AddFunction("later", func(args []object.Object) object.Object { return &object.Void{} })
			return v
		})
		ctx, cancel := context.WithTimeout(context.Background(), 500*time.Millisecond)
		e.SetContext(ctx)
		where = fmt.Sprintf("Prepare(optimize=%v)", optimize)
		var err error
		if optimize {
			err = e.Prepare()
		} else {
			err = e.Prepare([]byte{NoOptimize})
		}
		if err != nil {
			// whatever the script was, the evaluator can still be asked: each of these ends in an error, not a panic
			where = fmt.Sprintf("Dump after a failed Prepare(optimize=%v)", optimize)
			e.Dump()
			obj, _, _ := racObject(5, 0)
			where = fmt.Sprintf("Execute after a failed Prepare(optimize=%v)", optimize)
			e.Execute(obj)
			where = fmt.Sprintf("Run after a failed Prepare(optimize=%v)", optimize)
			e.Run(obj)
		}
		if err == nil {
			for _, shape := range []int{0, 2} {
				obj, _, _ := racObject(5, shape)
				where = fmt.Sprintf("Execute(optimize=%v)", optimize)
				e.Execute(obj)
				where = fmt.Sprintf("Run(optimize=%v)", optimize)
				e.Run(obj)
			}
			where = fmt.Sprintf("Dump(optimize=%v)", optimize)
			e.Dump()
			// the evaluator remains usable: Prepare again (the script may have left variables behind), and run
			where = fmt.Sprintf("second Prepare(optimize=%v)", optimize)
			if e.Prepare() == nil {
				obj, _, _ := racObject(5, 0)
				where = fmt.Sprintf("Execute after second Prepare(optimize=%v)", optimize)
				e.Execute(obj)
			}
			// ... also after a Prepare that was refused
			if len(src) < 10000 {
				e.Script = rejectedPrefix + src
				where = fmt.Sprintf("refused Prepare(optimize=%v)", optimize)
				e.Prepare()
				e.Script = src
				where = fmt.Sprintf("Dump after a refused Prepare(optimize=%v)", optimize)
				e.Dump()
				obj, _, _ := racObject(5, 0)
				where = fmt.Sprintf("Execute after a refused Prepare(optimize=%v)", optimize)
				e.Execute(obj)
			}
		}
		cancel()
	}
	return "", nil
}

func TestRAC_C08(t *testing.T) {
	seed := envInt("VERIF_SEED", 0)
	rep := &racReport{Property: "C08", Seed: seed, MaxDepth: envInt("RAC_DEPTH", 3), MaxSize: envInt("RAC_SIZE", 14)}
	defer rep.write()
	// Dump and the print built-ins write to standard output
	if devnull, err := os.OpenFile(os.DevNull, os.O_WRONLY, 0); err == nil {
		saved := os.Stdout
		os.Stdout = devnull
		defer func() { os.Stdout = saved }()
	}
	r := rand.New(rand.NewSource(int64(seed) + 8000))
	n := envInt("RAC_N", 3000)
	seen := map[string]bool{}
	// function definitions in places where they are legal but unusual (their bodies are compiled into a buffer of
	// their own while the surrounding construct is being compiled)
	oddDefinitions := []string{
		"switch ( function f() { return \"a\" + \"b\"; } ) { default { return f(); } }",
		"if ( true ) { function h() { return \"e\" + \"f\"; } } return h();",
		"while ( false ) { function k() { return \"z\" + N; } } return k();",
		"foreach x in [1] { function m() { return \"q\" + \"r\"; } } return m();",
		"function outer() { function inner() { return \"i\" + \"j\"; } return inner(); } return outer();",
		"a = 1; a = 2; function late() { return \"l\" + a; } b = 3; c = \"x\"; return late() + c;",
		"switch ( N ) { case 1 { function c1() { return \"one\"; } } default { function d1() { return \"dflt\"; } } } return d1();",
		"v = true ? 1 : 2; function t() { return \"t\" + v; } return t();",
	}
	_ = oddDefinitions
	// scripts which touch the names the engine keeps its own settings under
	settings := []string{"v = reenter(); later(); return v;", "foreach x in [1, 2] { reenter(); } return seen;", "DEBUG = 0;", "OPTIMIZE = 0;", "DEBUG = \"x\"; return 1;", "OPTIMIZE = [1]; return OPTIMIZE;", "DEBUG = 1.5; return DEBUG;", "DEBUG = false; OPTIMIZE = false;", "return DEBUG;",
		"function DEBUG() { return 1; } return DEBUG();", "foreach DEBUG in [1, 2] { } return 1;", "OPTIMIZE++; return 1;", "DEBUG += 1;", "local DEBUG;",
		// deep trees built without nesting in the text: the tree is walked recursively after parsing (an
		// overflowing stack is fatal, the harness then ends with "did not complete")
		"return 1" + strings.Repeat("+a", 40000) + ";", "return 1" + strings.Repeat(" || a == 1", 1000000) + ";", "return L" + strings.Repeat("[0]", 500000) + ";",
		"return id" + strings.Repeat("(1)", 500000) + ";", "return a" + strings.Repeat(".len()", 300000) + ";", "return " + strings.Repeat("!", 500000) + "1;",
		"return " + strings.Repeat("[", 300000) + "1" + strings.Repeat("]", 300000) + ";", strings.Repeat("a = ", 300000) + "1;", "if (a) { return 1; }" + strings.Repeat(" else if (a) { return 1; }", 100000),
		// ... and chains inside the operands of chains: the tree is as deep as all of them together
		"return " + strings.Repeat("(", 40) + "1" + strings.Repeat(strings.Repeat("+1", 32000)+")", 40) + strings.Repeat("+1", 32000) + ";",
		"return " + strings.Repeat("if ( a ) { ", 40) + "1" + strings.Repeat(strings.Repeat("+1", 32000)+"; }", 40) + strings.Repeat("+1", 32000) + ";",
		"return " + strings.Repeat("[", 40) + "1" + strings.Repeat(strings.Repeat("+1", 32000)+"]", 40) + strings.Repeat("[0]", 32000) + ";",
		"return id(" + strings.Repeat("id(1"+strings.Repeat("+1", 30000)+", ", 30) + "1" + strings.Repeat(")", 30) + strings.Repeat("+1", 30000) + ");"}
	settings = append(settings, oddDefinitions...)
	for i := -len(settings); i < n; i++ {
		var src string
		switch {
		case i < 0:
			src = settings[-i-1]
		case i%4 == 0:
			src, _ = genExtended(r, 1+i%rep.MaxDepth, rep.MaxSize)
		case i%4 == 1:
			// a valid script with a few tokens deleted, duplicated, swapped or replaced
			base, _ := genExtended(r, 1+i%rep.MaxDepth, rep.MaxSize)
			toks := splitTokens(base)
			for k := 0; k < 1+r.Intn(3) && len(toks) > 1; k++ {
				j := r.Intn(len(toks))
				switch r.Intn(4) {
				case 0:
					toks = append(toks[:j], toks[j+1:]...)
				case 1:
					toks = append(toks[:j], append([]string{toks[j]}, toks[j:]...)...)
				case 2:
					l := r.Intn(len(toks))
					toks[j], toks[l] = toks[l], toks[j]
				default:
					toks[j] = soupTokens[r.Intn(len(soupTokens))]
				}
			}
			src = strings.Join(toks, " ")
		case i%4 == 2:
			var toks []string
			for k := 0; k < 2+r.Intn(12); k++ {
				toks = append(toks, soupTokens[r.Intn(len(soupTokens))])
			}
			src = strings.Join(toks, " ")
		default:
			b := make([]byte, 1+r.Intn(24))
			for k := range b {
				b[k] = byte(r.Intn(256))
			}
			src = string(b)
		}
		rep.Programs++
		rep.count(src)
		rep.Runs++
		// an API call that never returns (a lock left held, a loop the deadline does not stop) must not hang the
		// check: the calls run in a goroutine and are given ten seconds
		type outcome struct {
			where string
			what  interface{}
		}
		done := make(chan outcome, 1)
		go func(src string) {
			w, x := tryAPI(src)
			done <- outcome{w, x}
		}(src)
		var where string
		var what interface{}
		select {
		case o := <-done:
			where, what = o.where, o.what
		case <-time.After(10 * time.Second):
			rep.Violations = append(rep.Violations, racVio{Kind: "api-call-does-not-return", Script: src, Expected: "every API call returns (each run has a 500 ms deadline)", Got: "no return within 10 s: a lock left held or a loop that ignores the deadline"})
			for _, v := range rep.Violations {
				t.Logf("RAC-VIOLATION kind=%s\nscript: %q\n%s", v.Kind, v.Script, v.Got)
			}
			return
		}
		if what == nil {
			continue
		}
		small := src
		if i >= 0 && i%4 != 3 {
			small = shrinkLines(strings.Join(splitTokens(src), "\n")+"\n", func(s string) bool {
				w, x := tryAPI(strings.ReplaceAll(s, "\n", " "))
				return x != nil && w == where
			})
			small = strings.TrimSpace(strings.ReplaceAll(small, "\n", " "))
			if _, x := tryAPI(small); x == nil {
				small = src
			}
		}
		key := where + "|" + fmt.Sprint(what)
		if seen[key] {
			continue
		}
		seen[key] = true
		rep.Violations = append(rep.Violations, racVio{Kind: "panic-in-" + where, Script: small, Expected: "an error value or an ordinary result", Got: fmt.Sprintf("panic: %v", what)})
		if len(rep.Violations) >= 12 {
			break
		}
	}
	for _, v := range rep.Violations {
		t.Logf("RAC-VIOLATION kind=%s\nscript: %q\n%s", v.Kind, v.Script, v.Got)
	}
}

// ---- C13 -----------------------------------------------------------------------------------------------------
// Bounded support for C13: invalid fragments x enclosing contexts (to depth 2).  Prepare must return an
// error for every combination - and must not panic (that part also serves C08).

var invalidFragments = []string{
	"1 = 2", `"a" = 3`, "3 += 4", "a[0] -= 1", "4 /= 2", "a.b = 1", "f(1) = 2", "[1] = 2", "true = 1", "a.b += 1", "-a = 1",
	"a ? b : c ? d : e", "a ? (b ? 1 : 2) : 3", "a ? b ? 1 : 2 : 3", "a ? id(b ? 1 : 2) : 3", "a ? [b ? 1 : 2] : 3", "a ? id(1) : (b ? 2 : 3)", "a ? [] : (b ? 2 : 3)", "a ? id(1) + (b ? 2 : 3) : 1", "a ? {\"k\": (b ? 1 : 2)} : 3",
	`"unterminated`, "'unterminated", "(1 + ", "[1, ", `{"k": `, "f(1, ", "1 +", "* 2", "1 + + ", "#", "@x", "a ~", "a.(1=2)", `a.("f"=3)`,
}

var fragmentContexts = []string{
	"%s;", "if ( %s ) { }", "if ( 1 ) { %s; }", "if ( 0 ) { } else { %s; }", "if ( 0 ) { } else if ( %s ) { }", "while ( %s ) { }", "while ( 0 ) { %s; }",
	"foreach x in [1] { %s; }", "foreach x in %s { }", "function g() { %s; }", "function g() { return %s; }", "switch ( 1 ) { case %s { } }", "switch ( %s ) { default { } }",
	"switch ( 1 ) { case 1 { %s; } }", "switch ( 1 ) { default { %s; } }", "v = %s;", "return %s;", "id(%s);", "id(1, %s);", "v = [%s];", "v = [1, %s];", `v = {"k": %s};`,
	"return 1; %s;", "if ( 1 ) { return 1; %s; }", "function g() { return 1; %s; }", "while ( 0 ) { return 2; %s; }", "foreach x in [1] { return x; %s; }",
	"if ( false ) { %s; }", "if ( true ) { } else { %s; }", "while ( false ) { %s; }", "if ( 1 == 2 ) { %s; }", "v = false ? %s : 2;", "v = true ? 2 : %s;", "v = false && %s;", "v = true || %s;",
	"v = {\"a\": 1, \"a\": [%s]};", "v = {\"a\": [%s], \"a\": 1};", "v = {1: 1, 1: %s};", "v = {true: 1, true: id(%s)};", "v = {\"k\": 1, \"k\": 1, \"k\": %s};",
	"(%s)(2);", "return (%s)();", "v = id(1)(%s);", "(%s).len();",
	"if ( false ) { function h() { %s; } }", "for ( false ) { %s; }", "switch ( 1 ) { case 2 { %s; } }", "if ( 0 ) { return %s; }",
	"v = L[%s];", "v = 1 ? %s : 2;", "v = 1 ? 2 : %s;", "v = (%s);", "v = !(%s);", "v = 1 + (%s);", "return id([%s])[0];",
}

// whole statements that are structurally invalid, and the places a statement can stand in
var invalidStatements = []string{
	"foreach x in [1,2] ; id(x); }", "foreach x in [1,2] @ id(x); }", "foreach x in [1,2] id(x);", "foreach x [1,2] { }", "foreach in [1,2] { }", "foreach x, in [1] { }",
	"function @(a) { return 1; }", "function 3(a) { return 1; }", "function (a) { return 1; }", "function f(a b) { return a; }", "function f(a,) { return a; }", "function f(,a) { return a; }", "function f(a { return a; }", "function f a) { return a; }",
	"3++;", "\"s\"++;", "++;", "(v)++;", "v = 1 + ++;", "v--  --;", "[1]++;",
	"v = 1;\x00 (((", "v = \"a\x00b\";",
	"v = a.(3 += 1);", "v = a.(1 = 2);", "v = a.[1];", "v = a.;",
	"if ( 1 ) ; { }", "while ( 0 ) v = 1;", "if 1 { }", "switch 1 { }", "if ( 1 ) { } else ; { }", "switch ( 1 ) { case 1 ; { } }", "switch ( 1 ) { 1 { } }", "switch ( 1 ) { default { } default { } }",
	"local;", "return", "v = ;", "= 3;", "else { }", "case 1 { }", "v = [1 2];", "v = {\"a\" 1};", "v = {\"a\": 1 \"b\": 2};", "v = id(1 2);",
	// a compound assignment whose target is a construct rather than a variable (seed C13i-1)
	"function ff() { return 1; } += 3;", "if ( true ) { 1; } *= 2;", "local lx += 3;", "while ( 0 ) { } -= 1;", "foreach z in [1] { } += 1;", "switch ( 1 ) { default { } } /= 2;", "if ( 1 ) { } else { } += 1;",
}

var statementContexts = []string{"%s", "if ( 1 ) { %s }", "if ( 0 ) { } else { %s }", "function g() { %s }", "while ( 0 ) { %s }", "foreach y in [1] { %s }", "switch ( 1 ) { default { %s } }",
	"switch ( 1 ) { case 1 { %s } }", "return 1; %s", "v = 1; %s return v;", "function g() { function h() { %s } }"}

func TestRAC_C13(t *testing.T) {
	seed := envInt("VERIF_SEED", 0)
	rep := &racReport{Property: "C13", Seed: seed, MaxDepth: 2}
	defer rep.write()
	if devnull, err := os.OpenFile(os.DevNull, os.O_WRONLY, 0); err == nil {
		saved := os.Stdout
		os.Stdout = devnull
		defer func() { os.Stdout = saved }()
	}
	r := rand.New(rand.NewSource(int64(seed) + 13000))
	nested := envInt("RAC_N", 1500) // number of random depth-2 combinations on top of the exhaustive depth-1 product
	var cases []string
	for _, f := range invalidFragments {
		for _, c := range fragmentContexts {
			cases = append(cases, strings.Replace(c, "%s", f, 1))
		}
	}
	for _, f := range invalidStatements {
		for _, c := range statementContexts {
			cases = append(cases, strings.Replace(c, "%s", f, 1))
		}
	}
	for i := 0; i < nested; i++ {
		f := invalidFragments[r.Intn(len(invalidFragments))]
		inner := fragmentContexts[r.Intn(len(fragmentContexts))]
		outer := fragmentContexts[r.Intn(len(fragmentContexts))]
		in := strings.TrimSuffix(strings.Replace(inner, "%s", f, 1), ";")
		if !strings.Contains(outer, "{ %s; }") && !strings.HasPrefix(outer, "%s;") {
			continue // statements nest in blocks only
		}
		cases = append(cases, "v = 1; "+strings.Replace(outer, "%s", in, 1)+" return v;")
	}
	seen := map[string]bool{}
	for _, src := range cases {
		rep.Programs++
		rep.count(src)
		for _, optimize := range []bool{true, false} {
			rep.Runs++
			var err error
			var pan interface{}
			var lastEval *Eval
			func() {
				defer func() { pan = recover() }()
				e := New(src)
				lastEval = e
				e.AddFunction("id", func(args []object.Object) object.Object { return &object.Null{} })
				if optimize {
					err = e.Prepare()
				} else {
					err = e.Prepare([]byte{NoOptimize})
				}
			}()
			var err2 error
			if pan == nil && err != nil {
				func() {
					defer func() { pan = recover() }()
					err2 = lastEval.Prepare()
				}()
			}
			var v *racVio
			switch {
			case pan == nil && err != nil && err2 == nil:
				v = &racVio{Kind: "invalid-script-accepted-by-second-prepare", Script: src, Expected: "an error from every call of Prepare", Got: "the first call failed (" + err.Error() + "), the second call on the same evaluator succeeded"}
			case pan != nil:
				v = &racVio{Kind: "prepare-panics", Script: src, Expected: "an error", Got: fmt.Sprintf("panic: %v", pan)}
			case err == nil:
				v = &racVio{Kind: "invalid-script-accepted", Script: src, Expected: "an error from Prepare", Got: fmt.Sprintf("Prepare(optimize=%v) accepted the script", optimize)}
			}
			if v != nil && !seen[v.Kind+src] && len(rep.Violations) < 40 {
				seen[v.Kind+src] = true
				rep.Violations = append(rep.Violations, *v)
			}
		}
	}
	for _, v := range rep.Violations {
		t.Logf("RAC-VIOLATION kind=%s script=%q %s", v.Kind, v.Script, v.Got)
	}
}

// ---- C14 (regexp literals) -------------------------------------------------------------------------------
// Bounded support for C14 / C01: a regexp literal /P/flags denotes the pattern P with the flags i and m.
// The lexer folds the flags into a "(?flags)" prefix, the parser splits a leading "(?...)" off again and
// the compiler re-assembles it - a round trip no contract covers (strings are uninterpreted in the
// verifier).  Here: patterns x flags x subjects, `S ~= /P/flags` and `S !~ /P/flags` against Go's regexp
// package applied the way the match built-in applies it (per line, trimmed).

// rawValue: the value an object holds, printed by the harness (not by the engine's Inspect)
func rawValue(o object.Object) string {
	switch x := o.(type) {
	case *object.Float:
		return strconv.FormatFloat(x.Value, 'g', -1, 64)
	case *object.Integer:
		return strconv.FormatInt(x.Value, 10)
	case *object.String:
		return strconv.Quote(x.Value)
	}
	return o.Inspect()
}

func TestRAC_C14(t *testing.T) {
	rep := &racReport{Property: "C14", Seed: envInt("VERIF_SEED", 0)}
	defer rep.write()
	patterns := []string{"ab", "^a", "b$", "a.c", "(?:ab|cd)e", "(?i:steve) kemp", "(ab)+", "(?:x)", "(?s:a.c)", "[a-c]+", `a\/b`, `\d+`, "(?P<n>a)b", "a|", "(?U)a+", "(?:)", "x(?:y)", "(ab|cd)e", "e$"}
	flags := []string{"", "i", "m", "im", "mi"}
	subjects := []string{"", "ab", "AB", "xe", "cde", "abe", "Steve Kemp", "steve kemp", "a/b", "a\nb", "x\nab", "  ab  ", "42", "ABC", "xy", "e", "aXc", "a\nc"}
	for _, p := range patterns {
		for _, f := range flags {
			// in the language a backslash in a regexp literal takes the next character literally
			unesc := ""
			for i := 0; i < len(p); i++ {
				if p[i] == '\\' && i+1 < len(p) {
					i++
				}
				unesc += string(p[i])
			}
			want, err := regexp.Compile(unesc)
			if f != "" {
				fs := ""
				if strings.Contains(f, "i") {
					fs += "i"
				}
				if strings.Contains(f, "m") {
					fs += "m"
				}
				want, err = regexp.Compile("(?" + fs + ")" + unesc)
			}
			if err != nil {
				continue
			}
			for _, neg := range []bool{false, true} {
				op := "~="
				if neg {
					op = "!~"
				}
				src := "return S " + op + " /" + p + "/" + f + ";"
				for _, optimize := range []bool{true, false} {
					e := New(src)
					var perr error
					if optimize {
						perr = e.Prepare()
					} else {
						perr = e.Prepare([]byte{NoOptimize})
					}
					rep.Programs++
					rep.count(src)
					if perr != nil {
						rep.Rejected++
						continue
					}
					for _, subj := range subjects {
						rep.Runs++
						exp := false
						for _, line := range strings.Split(subj, "\n") {
							if want.MatchString(strings.TrimSpace(line)) {
								exp = true
							}
						}
						if neg {
							exp = !exp
						}
						out, err := e.Execute(map[string]interface{}{"S": subj})
						got := "error"
						if err == nil {
							got = showObj(out)
						}
						if got != "BOOLEAN:"+strconv.FormatBool(exp) && len(rep.Violations) < 12 {
							rep.Violations = append(rep.Violations, racVio{Kind: "regexp-literal", Script: src, Input: fmt.Sprintf("S=%q optimize=%v", subj, optimize), Expected: "BOOLEAN:" + strconv.FormatBool(exp), Got: got})
						}
					}
				}
			}
		}
	}
	// ---- string literals: the characters between the quotes after the escape rules, in either quote style
	raws := []string{"abc", "", "a\\nb", "a\\tb", "a\\rb", "a\\\\b", "a\\qb", "a\\\nb", "a\r\nb", "a\nb", "a\tb", "λ→√ü", "  spaced  ", "a\\\r\nb", "//not a comment", "a // b", "#", "a\\0b", "1 + 2",
		"it's", "say \"hi\"", "a\\\"b", "a\\'b", "\\\\", "x\\", "{ } ( ) ;", "/re/", "a\r\n\r\nb\r", "\r\n", "tab\\\tx"}
	for _, raw := range raws {
		for _, q := range []byte{'"', '\''} {
			// the text is legal inside this quote style when it holds no unescaped quote of that style and does not end in a lone backslash
			legal, esc := true, false
			for i := 0; i < len(raw); i++ {
				switch {
				case esc:
					esc = false
				case raw[i] == '\\':
					esc = true
				case raw[i] == q:
					legal = false
				}
			}
			if !legal || esc {
				continue
			}
			want := ""
			rs := []rune(raw)
			for i := 0; i < len(rs); i++ {
				if rs[i] != '\\' {
					want += string(rs[i])
					continue
				}
				i++
				switch rs[i] {
				case 'n':
					want += "\n"
				case 'r':
					want += "\r"
				case 't':
					want += "\t"
				case '\n':
					// backslash-newline: the literal continues on the next line
				default:
					want += string(rs[i])
				}
			}
			src := "return " + string(q) + raw + string(q) + ";"
			for _, optimize := range []bool{true, false} {
				rep.Programs++
				rep.Runs++
				got := "error"
				e := New(src)
				var perr error
				if optimize {
					perr = e.Prepare()
				} else {
					perr = e.Prepare([]byte{NoOptimize})
				}
				if perr == nil {
					if out, err := e.Execute(nil); err == nil {
						got = showObj(out)
					}
				} else {
					got = "rejected: " + perr.Error()
				}
				if got != "STRING:"+want && len(rep.Violations) < 16 {
					rep.Violations = append(rep.Violations, racVio{Kind: "string-literal", Script: src, Input: fmt.Sprintf("optimize=%v", optimize), Expected: fmt.Sprintf("%q", "STRING:"+want), Got: fmt.Sprintf("%q", got)})
				}
			}
		}
	}
	// ---- numeric literals denote their decimal value
	for _, lit := range []string{"0", "7", "007", "42", "0100", "010", "08", "9223372036854775807", "65535", "65536", "32768", "1.5", "1.05", "0.001", "12.0625", "10.50", "0.0", "3.14159", "100.001", "00.5", "1.00", "0.1", "1.010", "0.05", "123456789.000001",
		"0.00000000012345671", "0.00000000012345674", "1000000400000000000000000.0", "1000000000000000000000000.0", "0.000000001", "0.0000000001", "123456789012345678901234.5", "9223372036854775808.0", "9007199254740993.0"} {
		want := ""
		if strings.Contains(lit, ".") {
			f, _ := strconv.ParseFloat(lit, 64)
			want = showObj(&object.Float{Value: f})
		} else {
			i, _ := strconv.ParseInt(lit, 10, 64)
			want = showObj(&object.Integer{Value: i})
		}
		for _, form := range []string{"return %s;", "return [%s][0];", "v = %s; return v;", "return 0 + %s;"} {
			src := fmt.Sprintf(form, lit)
			w := want
			for _, optimize := range []bool{true, false} {
				rep.Programs++
				rep.Runs++
				got := "error"
				e := New(src)
				var perr error
				if optimize {
					perr = e.Prepare()
				} else {
					perr = e.Prepare([]byte{NoOptimize})
				}
				if perr == nil {
					if out, err := e.Execute(nil); err == nil {
						got = showObj(out)
						// the value itself, not only its printed form (which goes through the engine's own printer on both sides)
						switch o := out.(type) {
						case *object.Float:
							if f, perr := strconv.ParseFloat(lit, 64); !strings.Contains(lit, ".") || perr != nil || o.Value != f {
								got = fmt.Sprintf("FLOAT with the value %v", o.Value)
							}
						case *object.Integer:
							if i, perr := strconv.ParseInt(lit, 10, 64); strings.Contains(lit, ".") || perr != nil || o.Value != i {
								got = fmt.Sprintf("INTEGER with the value %v", o.Value)
							}
						}
					}
				}
				if got != w && len(rep.Violations) < 16 {
					rep.Violations = append(rep.Violations, racVio{Kind: "numeric-literal", Script: src, Input: fmt.Sprintf("optimize=%v", optimize), Expected: w + " (the value " + lit + ")", Got: got})
				}
			}
		}
	}
	// several literals in one script stay themselves (the constant pool keeps literals apart that merely print alike)
	for _, group := range [][]string{{"0.00000000012345671", "0.00000000012345674"}, {"1000000400000000000000000.0", "1000000000000000000000000.0"}, {"1", "1.0", "\"1\""}, {"0.1", "0.10", "\"0.1\""},
		{"65535", "65536", "65535.0"}, {"\"a\\tb\"", "\"a\tb\""}, {"\"x\\ny\"", "\"x\\\\ny\""}} {
		src := "return [" + strings.Join(group, ", ") + "];"
		var wants []string
		for _, g := range group {
			one := New("return " + g + ";")
			if one.Prepare() != nil {
				wants = nil
				break
			}
			o, err := one.Execute(nil)
			if err != nil {
				wants = nil
				break
			}
			wants = append(wants, string(o.Type())+":"+rawValue(o))
		}
		for _, optimize := range []bool{true, false} {
			rep.Programs++
			rep.Runs++
			e := New(src)
			var perr error
			if optimize {
				perr = e.Prepare()
			} else {
				perr = e.Prepare([]byte{NoOptimize})
			}
			got := []string{"error"}
			if perr == nil {
				if out, err := e.Execute(nil); err == nil {
					if arr, ok := out.(*object.Array); ok {
						got = nil
						for _, el := range arr.Elements {
							got = append(got, string(el.Type())+":"+rawValue(el))
						}
					}
				}
			}
			if wants != nil && fmt.Sprint(got) != fmt.Sprint(wants) && len(rep.Violations) < 16 {
				rep.Violations = append(rep.Violations, racVio{Kind: "literals-in-one-script", Script: src, Input: fmt.Sprintf("optimize=%v", optimize), Expected: fmt.Sprint(wants) + " (each literal on its own)", Got: fmt.Sprint(got)})
			}
		}
	}
	// ---- layout and comments between tokens mean nothing: the generated programs hold one statement per line
	lr := rand.New(rand.NewSource(int64(rep.Seed) + 14000))
	for i := 0; i < 150*envInt("RAC_N", 1); i++ {
		src, watch := genExtended(lr, 1+i%3, 10)
		fillers := []string{"\n\n", " \n\t", " // c\n", "\n// x y \"z\" /q/ { (\n", "\r\n", "\n \n \n", " //\n"}
		var sb strings.Builder
		for _, ch := range src {
			if ch == '\n' {
				sb.WriteString(fillers[lr.Intn(len(fillers))])
			} else {
				sb.WriteRune(ch)
			}
		}
		alt := sb.String()
		rep.Programs++
		a, errA := newRacEval(src, true)
		b, errB := newRacEval(alt, true)
		if (errA == nil) != (errB == nil) {
			if len(rep.Violations) < 16 {
				rep.Violations = append(rep.Violations, racVio{Kind: "layout-changes-acceptance", Script: alt, Expected: fmt.Sprint("as written first: ", errA), Got: fmt.Sprint("with other layout and comments: ", errB)})
			}
			continue
		}
		if errA != nil {
			continue
		}
		obj, _, desc := racObject(5, 2)
		oa, ob := a.run(obj, watch), b.run(obj, watch)
		rep.Runs += 2
		if !sameObserved(oa, ob, true) && len(rep.Violations) < 16 {
			rep.Violations = append(rep.Violations, racVio{Kind: "layout-changes-meaning", Script: alt, Input: desc, Expected: oa.String(), Got: ob.String()})
		}
	}
	for _, v := range rep.Violations {
		t.Logf("RAC-VIOLATION kind=%s script=%q input=%s expected %s got %s", v.Kind, v.Script, v.Input, v.Expected, v.Got)
	}
}
