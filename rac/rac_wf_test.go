//go:build verif

package evalfilter

// Bounded harness of /verif, part 2: a verifier of compiled programs (C18).  It walks the code the
// machine will run - all paths, executable or not - and checks the structural conditions of C18.

import (
	"fmt"

	"github.com/skx/evalfilter/v2/code"
	"github.com/skx/evalfilter/v2/object"
)

// wfBody checks one body; isFunc: a function body (must end in a return on every path).
func wfBody(name string, bc code.Instructions, consts []object.Object, isFunc bool) []string {
	var errs []string
	bad := func(format string, a ...interface{}) {
		if len(errs) < 8 {
			errs = append(errs, name+": "+fmt.Sprintf(format, a...))
		}
	}
	n := len(bc)
	if n == 0 {
		if isFunc {
			bad("empty function body")
		}
		return errs
	}
	// 1. a sequence of known instructions with complete operands
	starts := map[int]bool{}
	var order []int
	for ip := 0; ip < n; {
		op := code.Opcode(bc[ip])
		if int(op) >= len(code.OpCodeNames) || code.OpCodeNames[op] == "" {
			bad("unknown opcode %d at %d", op, ip)
			return errs
		}
		l := code.Length(op)
		if ip+l > n {
			bad("%s at %d: operand runs past the end (%d bytes)", code.String(op), ip, n)
			return errs
		}
		starts[ip] = true
		order = append(order, ip)
		ip += l
	}
	arg := func(ip int) int { return int(bc[ip+1])<<8 | int(bc[ip+2]) }
	// 2. jumps land on instruction starts inside the body; constant references exist and have the right kind
	for _, ip := range order {
		op := code.Opcode(bc[ip])
		switch op {
		case code.OpJump, code.OpJumpIfFalse:
			t := arg(ip)
			if t >= n || !starts[t] {
				bad("%s at %d: target %d is not the start of an instruction of this body (%d bytes)", code.String(op), ip, t, n)
			}
		case code.OpConstant:
			if arg(ip) >= len(consts) {
				bad("OpConstant at %d: no constant %d (pool of %d)", ip, arg(ip), len(consts))
			}
		case code.OpLookup, code.OpInc, code.OpDec:
			if arg(ip) >= len(consts) {
				bad("%s at %d: no constant %d (pool of %d)", code.String(op), ip, arg(ip), len(consts))
			} else if _, ok := consts[arg(ip)].(*object.String); !ok {
				bad("%s at %d: constant %d is a %s, not a name", code.String(op), ip, arg(ip), consts[arg(ip)].Type())
			}
		}
	}
	if len(errs) > 0 {
		return errs
	}
	// 3. all paths: least stack depth at each instruction (calls are taken to return a value); no
	// instruction pops more than there is; a function body never runs off its end
	const unset = 1 << 30
	depth := make(map[int]int)
	afterNext := make(map[int]bool) // reached straight from OpIterationNext (its flag decides what is below it)
	for _, ip := range order {
		depth[ip] = unset
	}
	type item struct {
		ip, d int
		an    bool
	}
	work := []item{{0, 0, false}}
	fellOff := false
	steps := 0
	push := func(ip, d int, an bool) {
		if ip >= n {
			fellOff = true
			return
		}
		work = append(work, item{ip, d, an})
	}
	for len(work) > 0 {
		it := work[len(work)-1]
		work = work[:len(work)-1]
		steps++
		if steps > 2000000 {
			bad("stack analysis did not converge")
			break
		}
		if it.d >= depth[it.ip] && !(it.an && !afterNext[it.ip]) {
			continue
		}
		if it.d < depth[it.ip] {
			depth[it.ip] = it.d
		}
		if it.an {
			afterNext[it.ip] = true
		}
		op := code.Opcode(bc[it.ip])
		l := code.Length(op)
		d := it.d
		need, out := 0, 0
		switch op {
		case code.OpNop, code.OpPlaceholder, code.OpJump:
		case code.OpPush, code.OpConstant, code.OpLookup, code.OpTrue, code.OpFalse, code.OpVoid:
			out = 1
		case code.OpLocal, code.OpJumpIfFalse, code.OpInc, code.OpDec:
			need = 1
		case code.OpSet:
			need = 2
		case code.OpAdd, code.OpSub, code.OpMul, code.OpDiv, code.OpMod, code.OpPower, code.OpLess, code.OpLessEqual, code.OpGreater,
			code.OpGreaterEqual, code.OpEqual, code.OpNotEqual, code.OpMatches, code.OpNotMatches, code.OpAnd, code.OpOr, code.OpArrayIn,
			code.OpCase, code.OpIndex, code.OpRange:
			need, out = 2, 1
		case code.OpBang, code.OpMinus, code.OpSquareRoot, code.OpIterationReset:
			need, out = 1, 1
		case code.OpArray, code.OpHash:
			need, out = arg(it.ip), 1
		case code.OpCall:
			need, out = arg(it.ip)+1, 1
		case code.OpReturn:
			need = 1
		case code.OpIterationNext:
			need = 3
		default:
			bad("no stack effect known for %s", code.String(op))
			return errs
		}
		if d < need {
			bad("%s at %d needs %d operand(s) but only %d are there on some path", code.String(op), it.ip, need, d)
			return errs
		}
		switch op {
		case code.OpReturn:
			continue
		case code.OpJump:
			push(arg(it.ip), d, false)
		case code.OpJumpIfFalse:
			if it.an {
				// the flag came from OpIterationNext: true sits on the iterated object, false on nothing
				push(it.ip+l, d-1, false)
				push(arg(it.ip), d-2, false)
			} else {
				push(it.ip+l, d-1, false)
				push(arg(it.ip), d-1, false)
			}
		case code.OpIterationNext:
			push(it.ip+l, d-3+2, true)
		default:
			push(it.ip+l, d-need+out, false)
		}
	}
	if isFunc && fellOff {
		bad("a path runs off the end of the function body without a return")
	}
	return errs
}

// wfProgram checks everything a prepared evaluator will execute (main body and every function body, as
// held by its machine: after optimisation, or as compiled when prepared with NoOptimize).
func wfProgram(e *Eval) []string {
	consts, main, funcs := e.machine.VerifProgram()
	errs := wfBody("main", main, consts, false)
	for name, f := range funcs {
		errs = append(errs, wfBody("function "+name, f.Bytecode, consts, true)...)
	}
	return errs
}
