//go:build verif

package evalfilter

// Bounded support for C20 (the command-line driver): cmd/evalfilter is built from the tree under test
// and run as a process.  `run [-json file] [-no-optimizer] [-timeout d] script` must report the type,
// printed value and truth - or the error - that Execute gives in this process for the same script on
// the same decoded JSON document, and all four sub-commands must end with exit status 0 on every
// script (valid, mutated, random bytes) and JSON file (valid, malformed, missing).

import (
	"bytes"
	"context"
	"encoding/json"
	"fmt"
	"math/rand"
	"os"
	"os/exec"
	"path/filepath"
	"strings"
	"testing"
	"time"
)

func TestRAC_C20(t *testing.T) {
	seed := envInt("VERIF_SEED", 0)
	rep := &racReport{Property: "C20", Seed: seed, MaxDepth: 3, MaxSize: 10}
	defer rep.write()
	add := func(kind, script, input, want, got string) {
		if len(rep.Violations) < 12 {
			rep.Violations = append(rep.Violations, racVio{Kind: kind, Script: script, Input: input, Expected: want, Got: got})
		}
	}
	defer func() {
		for _, v := range rep.Violations {
			t.Logf("RAC-VIOLATION kind=%s script=%q input=%s expected %s got %s", v.Kind, v.Script, v.Input, v.Expected, v.Got)
		}
	}()
	// the oracle runs scripts in this process: what they (and the engine) print is not of interest
	if devnull, err := os.OpenFile(os.DevNull, os.O_WRONLY, 0); err == nil {
		saved := os.Stdout
		os.Stdout = devnull
		defer func() { os.Stdout = saved }()
	}
	dir, err := os.MkdirTemp("", "rac-driver-")
	if err != nil {
		t.Fatal(err)
	}
	defer os.RemoveAll(dir)
	bin := filepath.Join(dir, "evalfilter")
	build := exec.Command("go", "build", "-o", bin, "./cmd/evalfilter")
	if out, err := build.CombinedOutput(); err != nil {
		add("driver-does-not-build", "", "go build ./cmd/evalfilter", "a binary", string(out))
		return
	}
	r := rand.New(rand.NewSource(int64(seed) + 20000))
	n := envInt("RAC_N", 150)
	docs := []string{
		`{"N": 3, "M": 1, "S": "abλ", "L": [3, 1, 2], "B0": true, "B1": false, "B2": true, "B3": false, "H": {"a": 1, "b": 2}, "F": 2.5}`,
		`{"N": 0, "M": 70000, "S": "", "L": [], "B0": false, "B1": false, "B2": false, "B3": false, "H": {}, "F": 0.1, "Nested": {"k": [1, {"x": "y"}]}, "Nil": null}`,
		`{}`,
	}
	badDocs := []string{`{"N": `, `[1, 2, 3]`, ``, `nonsense`, "{\"a\": 1}\x00"}
	scripts := []string{
		"return N + 1;", "return S;", "return L;", "return H;", "return B0;", "return F * 2;", "return Nothing;", "return 1 / 0;", "return len(S);", "return N > 2 && B0;",
		"return [1, \"a\", 2.5, true];", "return {\"k\": N};", "if ( N > 2 ) { return \"big\"; } return \"small\";", "foreach x in L { if ( x == 1 ) { return x; } } return -1;",
		"return 1.0;", "return -0.0;", "return 3 == 3.0;", "return \"a\\nb\";", "return S ~= /b/;", "function f(a) { return a * 2; } return f(N);", "x = 1;", "return;", "3 += 1;", "return (",
		"return OPTIMIZE;", "return \"100%\";", "return [\"%d\", \"%s %v\"];", "return {\"%x\": \"50%%\"};", "return S + \"%!s\";", "return type(N);", "return Nested;", "return Nil;", "return keys(H);", "return 1 ? 2 : 3;", "return /x/;",
	}
	run := func(args ...string) (string, string, int, bool) {
		ctx, cancel := context.WithTimeout(context.Background(), 20*time.Second)
		defer cancel()
		cmd := exec.CommandContext(ctx, bin, args...)
		var so, se bytes.Buffer
		cmd.Stdout, cmd.Stderr = &so, &se
		err := cmd.Run()
		code := 0
		if ee, ok := err.(*exec.ExitError); ok {
			code = ee.ExitCode()
		} else if err != nil {
			code = -1
		}
		return so.String(), se.String(), code, ctx.Err() != nil
	}
	expect := func(script, doc string, raw bool) string {
		obj := make(map[string]interface{})
		if doc != "" {
			if err := json.Unmarshal([]byte(doc), &obj); err != nil {
				return "Error parsing JSON " + err.Error()
			}
		}
		e := New(script)
		var flags []byte
		if raw {
			flags = append(flags, NoOptimize)
		}
		if err := e.Prepare(flags); err != nil {
			return "Error compiling:" + err.Error()
		}
		ret, err := e.Execute(obj)
		if err != nil {
			return "Failed to run script: " + err.Error()
		}
		return fmt.Sprintf("Script gave result type:%s value:%s - which is '%t'.", ret.Type(), ret.Inspect(), ret.True())
	}
	abnormal := func(so, se string, code int, hung bool) string {
		switch {
		case hung:
			return "no exit within 20 s"
		case code != 0:
			return fmt.Sprintf("exit status %d: %s", code, trunc200(se))
		case strings.Contains(se, "fatal error") || strings.Contains(se, "goroutine "):
			return "runtime failure: " + trunc200(se)
		}
		return ""
	}
	for i := 0; i < n+len(scripts); i++ {
		var script string
		if i < len(scripts) {
			script = scripts[i]
		} else {
			script, _ = genExtended(r, 1+i%3, 10)
			script = strings.ReplaceAll(script, "trace(", "id(") // the driver registers no host functions: id is unknown there and in the oracle alike
		}
		sf := filepath.Join(dir, fmt.Sprintf("s%d.in", i))
		os.WriteFile(sf, []byte(script), 0644)
		rep.Programs++
		rep.count(script)
		for di, doc := range docs {
			if i >= len(scripts) && di != i%len(docs) {
				continue
			}
			jf := filepath.Join(dir, fmt.Sprintf("d%d.json", di))
			os.WriteFile(jf, []byte(doc), 0644)
			for _, raw := range []bool{false, true} {
				args := []string{"run", "-json", jf}
				if raw {
					args = append(args, "-no-optimizer")
				}
				if r.Intn(3) == 0 {
					args = append(args, "-timeout", "10s")
				}
				args = append(args, sf)
				so, se, code, hung := run(args...)
				rep.Runs++
				if why := abnormal(so, se, code, hung); why != "" {
					add("driver-run-abnormal-end", script, strings.Join(args[:len(args)-1], " ")+" doc="+doc, "exit status 0", why)
					continue
				}
				want := expect(script, doc, raw)
				// the script's own output (print) precedes the report; the report is the line that starts like the expected one
				found := false
				for _, line := range strings.Split(so, "\n") {
					if line == want || (strings.HasPrefix(want, "Error compiling:") && strings.HasPrefix(so, want)) || (strings.HasPrefix(want, "Failed to run script: ") && strings.Contains(so, want)) {
						found = true
						break
					}
				}
				if !found && strings.Contains(so, want) {
					found = true // multi-line values
				}
				if !found {
					add("driver-reports-something-else", script, strings.Join(args[:len(args)-1], " ")+" doc="+doc, want, trunc200(so))
				}
			}
		}
	}
	// malformed and missing documents, and scripts of every kind through the other sub-commands
	sf := filepath.Join(dir, "ok.in")
	os.WriteFile(sf, []byte("return 1;"), 0644)
	for bi, doc := range badDocs {
		jf := filepath.Join(dir, fmt.Sprintf("bad%d.json", bi))
		os.WriteFile(jf, []byte(doc), 0644)
		so, se, code, hung := run("run", "-json", jf, sf)
		rep.Runs++
		if why := abnormal(so, se, code, hung); why != "" {
			add("driver-run-abnormal-end", "return 1;", "malformed JSON "+doc, "exit status 0", why)
		} else if !strings.Contains(so, "Error parsing JSON") {
			add("driver-reports-something-else", "return 1;", "malformed JSON "+doc, "Error parsing JSON ...", trunc200(so))
		}
	}
	if so, se, code, hung := run("run", "-json", filepath.Join(dir, "missing.json"), sf); abnormal(so, se, code, hung) != "" || !strings.Contains(so, "Error reading file") {
		add("driver-run-abnormal-end", "return 1;", "missing JSON file", "Error reading file ..., exit status 0", trunc200(so+se))
	}
	// a script that never ends is stopped by -timeout
	lf := filepath.Join(dir, "loop.in")
	os.WriteFile(lf, []byte("while ( true ) { }"), 0644)
	t0 := time.Now()
	so, se, code, hung := run("run", "-timeout", "200ms", lf)
	rep.Runs++
	if why := abnormal(so, se, code, hung); why != "" || !strings.Contains(so, "Failed to run script:") || time.Since(t0) > 10*time.Second {
		add("driver-timeout", "while ( true ) { }", "-timeout 200ms", "Failed to run script: ... within the deadline", why+" "+trunc200(so))
	}
	for i := 0; i < n/2+20; i++ {
		var script string
		switch i % 4 {
		case 0:
			script, _ = genExtended(r, 1+i%3, 10)
		case 1:
			var toks []string
			for k := 0; k < 2+r.Intn(12); k++ {
				toks = append(toks, soupTokens[r.Intn(len(soupTokens))])
			}
			script = strings.Join(toks, " ")
		case 2:
			b := make([]byte, 1+r.Intn(24))
			for k := range b {
				b[k] = byte(r.Intn(256))
			}
			script = string(b)
		default:
			script = scripts[r.Intn(len(scripts))]
		}
		f := filepath.Join(dir, fmt.Sprintf("x%d.in", i))
		os.WriteFile(f, []byte(script), 0644)
		for _, sub := range [][]string{{"lex"}, {"parse"}, {"bytecode"}, {"bytecode", "-no-optimizer"}, {"run"}} {
			so, se, code, hung := run(append(append([]string{}, sub...), f)...)
			rep.Runs++
			if why := abnormal(so, se, code, hung); why != "" {
				add("driver-"+sub[0]+"-abnormal-end", script, strings.Join(sub, " "), "exit status 0", why)
			}
		}
	}
}

func trunc200(s string) string {
	if len(s) > 300 {
		return s[:300] + "..."
	}
	return s
}
