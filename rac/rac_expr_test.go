//go:build verif

package evalfilter

// Bounded support for C12 (and C01): expression trees over integers, floats and booleans are printed
// with the fewest parentheses the documented precedence table allows - index/call, prefix, %, **,
// * /, + -, comparisons, == !=, && ||, (range/assignment), ternary; equal levels group
// left-to-right - and again fully parenthesised; both texts, prepared with and without the optimizer,
// must evaluate to what a reference evaluation of the TREE gives.  The table below is taken from the
// property statement, not from the parser, and the reference works on the tree, so a parser that
// groups differently and a compiler or optimizer that regroups (which shows with floats: their
// arithmetic is not associative) both fail here.

import (
	"fmt"
	"math"
	"math/rand"
	"strconv"
	"strings"
	"testing"

	"github.com/skx/evalfilter/v2/object"
)

type xnode struct {
	op   string // "" for a leaf, "neg", "not", "?:", or a binary operator
	l, r *xnode
	c    *xnode // condition of "?:"
	text string // leaf: literal text or field name
	val  xval   // leaf: its value for literals
}

type xval struct {
	k byte // 'i' 'f' 'b' 'e' (error)
	i int64
	f float64
	b bool
}

var xLevels = map[string]int{"%": 7, "**": 6, "*": 5, "/": 5, "+": 4, "-": 4, "<": 3, "<=": 3, ">": 3, ">=": 3, "==": 2, "!=": 2, "&&": 1, "||": 1}

func (n *xnode) level() int {
	switch n.op {
	case "":
		return 10
	case "neg", "not":
		return 8
	case "?:":
		return 0
	}
	return xLevels[n.op]
}

// minimal: only the parentheses the table requires
func (n *xnode) minimal() string {
	switch n.op {
	case "":
		return n.text
	case "neg", "not":
		sym := map[string]string{"neg": "-", "not": "!"}[n.op]
		s := n.l.minimal()
		if n.l.level() < 8 || n.l.op == n.op {
			s = "(" + s + ")"
		}
		return sym + s
	case "?:":
		return n.c.minimal() + " ? " + n.l.minimal() + " : " + n.r.minimal()
	}
	p := n.level()
	ls, rs := n.l.minimal(), n.r.minimal()
	if n.l.level() < p {
		ls = "(" + ls + ")"
	}
	if n.r.level() <= p {
		rs = "(" + rs + ")"
	}
	return ls + " " + n.op + " " + rs
}

// full: every compound sub-expression in parentheses
func (n *xnode) full() string {
	switch n.op {
	case "":
		return n.text
	case "neg":
		return "-(" + n.l.full() + ")"
	case "not":
		return "!(" + n.l.full() + ")"
	case "?:":
		return "(" + n.c.full() + ") ? (" + n.l.full() + ") : (" + n.r.full() + ")"
	}
	return "(" + n.l.full() + ") " + n.op + " (" + n.r.full() + ")"
}

func xtruthy(v xval) bool {
	switch v.k {
	case 'i':
		return v.i > 0
	case 'f':
		return v.f > 0
	case 'b':
		return v.b
	}
	return false
}

var xerr = xval{k: 'e'}

// ambiguous: an error below the right operand of && / || or in an arm of the ternary that is not
// taken - whether that operand is evaluated at all is not part of the property
type xctx struct {
	fields    map[string]xval
	ambiguous bool
}

func (cx *xctx) eval(n *xnode) xval {
	switch n.op {
	case "":
		if v, ok := cx.fields[n.text]; ok {
			return v
		}
		return n.val
	case "neg":
		v := cx.eval(n.l)
		switch v.k {
		case 'i':
			return xval{k: 'i', i: -v.i}
		case 'f':
			return xval{k: 'f', f: -v.f}
		}
		return xerr
	case "not":
		v := cx.eval(n.l)
		switch v.k {
		case 'b':
			return xval{k: 'b', b: !v.b}
		case 'e':
			return xerr
		}
		return xval{k: 'b', b: false}
	case "?:":
		c := cx.eval(n.c)
		a, b := cx.eval(n.l), cx.eval(n.r)
		if c.k == 'e' {
			return xerr
		}
		if xtruthy(c) {
			if b.k == 'e' {
				cx.ambiguous = true
			}
			return a
		}
		if a.k == 'e' {
			cx.ambiguous = true
		}
		return b
	}
	l, r := cx.eval(n.l), cx.eval(n.r)
	if n.op == "&&" || n.op == "||" {
		if l.k == 'e' {
			return xerr
		}
		if r.k == 'e' {
			cx.ambiguous = true
			return xerr
		}
		if n.op == "&&" {
			return xval{k: 'b', b: xtruthy(l) && xtruthy(r)}
		}
		return xval{k: 'b', b: xtruthy(l) || xtruthy(r)}
	}
	if l.k == 'e' || r.k == 'e' {
		return xerr
	}
	if l.k == 'b' || r.k == 'b' {
		if l.k == 'b' && r.k == 'b' {
			switch n.op {
			case "==":
				return xval{k: 'b', b: l.b == r.b}
			case "!=":
				return xval{k: 'b', b: l.b != r.b}
			}
		}
		return xerr
	}
	if l.k == 'i' && r.k == 'i' {
		a, b := l.i, r.i
		switch n.op {
		case "+":
			return xval{k: 'i', i: a + b}
		case "-":
			return xval{k: 'i', i: a - b}
		case "*":
			return xval{k: 'i', i: a * b}
		case "/":
			if b == 0 {
				return xerr
			}
			return xval{k: 'i', i: a / b}
		case "%":
			if b == 0 {
				return xerr
			}
			return xval{k: 'i', i: a % b}
		case "**":
			return xval{k: 'i', i: int64(math.Pow(float64(a), float64(b)))}
		}
		return xval{k: 'b', b: xcmpI(n.op, a, b)}
	}
	// int mixed with float is computed in float
	a, b := l.f, r.f
	if l.k == 'i' {
		a = float64(l.i)
	}
	if r.k == 'i' {
		b = float64(r.i)
	}
	switch n.op {
	case "+":
		return xval{k: 'f', f: a + b}
	case "-":
		return xval{k: 'f', f: a - b}
	case "*":
		return xval{k: 'f', f: a * b}
	case "/":
		if b == 0 {
			return xerr
		}
		return xval{k: 'f', f: a / b}
	case "%":
		if int(b) == 0 {
			return xerr
		}
		return xval{k: 'f', f: float64(int(a) % int(b))}
	case "**":
		return xval{k: 'f', f: math.Pow(a, b)}
	}
	return xval{k: 'b', b: xcmpF(n.op, a, b)}
}

func xcmpI(op string, a, b int64) bool {
	switch op {
	case "<":
		return a < b
	case "<=":
		return a <= b
	case ">":
		return a > b
	case ">=":
		return a >= b
	case "==":
		return a == b
	}
	return a != b
}

// (not derived from < and ==: with a NaN operand every ordering comparison and == are false, != is true)
func xcmpF(op string, a, b float64) bool {
	switch op {
	case "<":
		return a < b
	case "<=":
		return a <= b
	case ">":
		return a > b
	case ">=":
		return a >= b
	case "==":
		return a == b
	}
	return a != b
}

func (v xval) show() string {
	switch v.k {
	case 'i':
		return showObj(&object.Integer{Value: v.i})
	case 'f':
		return showObj(&object.Float{Value: v.f})
	case 'b':
		return showObj(&object.Boolean{Value: v.b})
	}
	return "error"
}

var xLeaves = []*xnode{
	{text: "0", val: xval{k: 'i', i: 0}}, {text: "1", val: xval{k: 'i', i: 1}}, {text: "2", val: xval{k: 'i', i: 2}}, {text: "3", val: xval{k: 'i', i: 3}},
	{text: "5", val: xval{k: 'i', i: 5}}, {text: "7", val: xval{k: 'i', i: 7}}, {text: "10", val: xval{k: 'i', i: 10}}, {text: "70000", val: xval{k: 'i', i: 70000}},
	{text: "0.1", val: xval{k: 'f', f: 0.1}}, {text: "0.5", val: xval{k: 'f', f: 0.5}}, {text: "2.5", val: xval{k: 'f', f: 2.5}}, {text: "0.3", val: xval{k: 'f', f: 0.3}},
	{text: "10000000000000000.0", val: xval{k: 'f', f: 1e16}},
	{text: "true", val: xval{k: 'b', b: true}}, {text: "false", val: xval{k: 'b', b: false}},
	{text: "N"}, {text: "M"}, {text: "F"}, {text: "N"}, {text: "F"}, {text: "B0"}, {text: "Q"},
}

var xArith = []string{"+", "-", "*", "/", "%", "**", "+", "-", "*", "+", "*"}
var xOther = []string{"<", "<=", ">", ">=", "==", "!=", "&&", "||"}

func genX(r *rand.Rand, d int, numeric bool) *xnode {
	if d == 0 || r.Intn(5) == 0 {
		for {
			l := xLeaves[r.Intn(len(xLeaves))]
			if numeric && (l.val.k == 'b' || l.text == "B0") {
				continue
			}
			return l
		}
	}
	switch x := r.Intn(12); {
	case x == 0:
		return &xnode{op: "neg", l: genX(r, d-1, true)}
	case x == 1 && !numeric:
		return &xnode{op: "not", l: genX(r, d-1, false)}
	case x < 9 || numeric:
		op := xArith[r.Intn(len(xArith))]
		n := &xnode{op: op, l: genX(r, d-1, true), r: genX(r, d-1, true)}
		if op == "**" {
			// exponents stay small: the value of an integer power beyond 2^63 is machine-defined
			n.r = xLeaves[r.Intn(4)]
		}
		return n
	default:
		op := xOther[r.Intn(len(xOther))]
		sub := op != "&&" && op != "||"
		if op == "==" || op == "!=" {
			sub = r.Intn(3) != 0
		}
		return &xnode{op: op, l: genX(r, d-1, sub), r: genX(r, d-1, sub)}
	}
}

func TestRAC_C12(t *testing.T) {
	seed := envInt("VERIF_SEED", 0)
	rep := &racReport{Property: "C12", Seed: seed, MaxDepth: envInt("RAC_DEPTH", 4)}
	defer rep.write()
	r := rand.New(rand.NewSource(int64(seed) + 12000))
	n := envInt("RAC_N", 3000)
	seen := map[string]bool{}
	// chains of two operators of the arithmetic levels ending in integer literals, over every kind of first
	// operand: (x op1 c1) op2 c2 and x op1 (c1 op2 c2) - where regrouping shows with floats
	var chains []*xnode
	leaf := func(t string) *xnode {
		for _, l := range xLeaves {
			if l.text == t {
				return l
			}
		}
		panic(t)
	}
	for _, first := range []string{"F", "0.1", "0.3", "10000000000000000.0", "N", "2.5", "7"} {
		for _, op1 := range []string{"+", "-", "*", "/"} {
			for _, op2 := range []string{"+", "-", "*", "/"} {
				for _, c1 := range []string{"1", "3", "5", "10"} {
					for _, c2 := range []string{"1", "3", "5", "10"} {
						chains = append(chains, &xnode{op: op2, l: &xnode{op: op1, l: leaf(first), r: leaf(c1)}, r: leaf(c2)},
							&xnode{op: op1, l: leaf(first), r: &xnode{op: op2, l: leaf(c1), r: leaf(c2)}})
					}
				}
			}
		}
	}
	// negations of every kind of operand as conditions and as values: ! is not truth-negation for values that
	// are neither boolean nor null, so "!c ? a : b" is not "c ? b : a" and "!!x" is not x
	for _, l := range xLeaves {
		not := &xnode{op: "not", l: l}
		chains = append(chains, &xnode{op: "?:", c: not, l: leaf("1"), r: leaf("2")}, &xnode{op: "not", l: not}, &xnode{op: "not", l: &xnode{op: "not", l: not}},
			&xnode{op: "?:", c: &xnode{op: "not", l: not}, l: leaf("1"), r: leaf("2")}, &xnode{op: "&&", l: not, r: leaf("true")}, &xnode{op: "||", l: &xnode{op: "not", l: not}, r: leaf("false")},
			&xnode{op: "not", l: &xnode{op: "-", l: l, r: l}}, &xnode{op: "?:", c: &xnode{op: "not", l: &xnode{op: "*", l: l, r: leaf("0")}}, l: leaf("3"), r: leaf("5")})
	}
	for i := 0; i < n+len(chains) && len(rep.Violations) < 12; i++ {
		var tree *xnode
		if i < len(chains) {
			tree = chains[i]
		} else {
			tree = genX(r, 1+i%rep.MaxDepth, false)
			if r.Intn(6) == 0 {
				tree = &xnode{op: "?:", c: genX(r, 2, false), l: tree, r: genX(r, 2, false)}
			}
		}
		rep.Programs++
		for ti, text := range []string{tree.minimal(), tree.full()} {
			src := "return " + text + ";"
			if ti == 0 {
				rep.count(src)
			}
			for _, optimize := range []bool{true, false} {
				re, err := newRacEval(src, optimize)
				if err != nil {
					rep.Rejected++
					if !seen["rej"+src] && len(rep.Violations) < 12 {
						seen["rej"+src] = true
						rep.Violations = append(rep.Violations, racVio{Kind: "valid-expression-rejected", Script: src, Expected: "accepted", Got: err.Error()})
					}
					continue
				}
				for shape := 0; shape < 3; shape++ {
					obj, _, desc := racObject(1, shape)
					cx := &xctx{fields: map[string]xval{
						"N": {k: 'i', i: int64(obj["N"].(int))}, "M": {k: 'i', i: int64(obj["M"].(int))},
						"F": {k: 'f', f: obj["F"].(float64)}, "B0": {k: 'b', b: obj["B0"].(bool)}, "Q": {k: 'f', f: obj["Q"].(float64)}}}
					want := cx.eval(tree)
					if cx.ambiguous {
						continue
					}
					rep.Runs++
					got := "error"
					if out, err := re.e.Execute(obj); err == nil {
						got = showObj(out)
					}
					if got != want.show() && !seen[src] {
						seen[src] = true
						kind := "expression-value"
						if ti == 1 {
							kind = "expression-value(fully-parenthesised)"
						}
						rep.Violations = append(rep.Violations, racVio{Kind: kind, Script: src, Input: fmt.Sprintf("optimize=%v %s", optimize, desc),
							Expected: want.show() + " (the tree " + tree.full() + ")", Got: got})
					}
				}
			}
		}
	}
	// shrink: report the smallest failing sub-expression text first
	for _, v := range rep.Violations {
		t.Logf("RAC-VIOLATION kind=%s script=%q input=%s expected %s got %s", v.Kind, v.Script, v.Input, v.Expected, v.Got)
	}
	_ = strconv.Itoa
	_ = strings.TrimSpace
}
