//go:build verif

package evalfilter

// Bounded support for C16: arrays, hashes, strings and ranges as ordered, total containers - literal
// order, inclusive ranges, indexing inside and outside the range (strings by character), hash keys of
// different types kept apart, absent keys, `in`, len, and iteration that visits each entry exactly once
// (a hash in sorted key order) - as scripts with the values the property states, plus randomised
// indices and ranges against a direct computation.  Optimised and not.

import (
	"fmt"
	"math/rand"
	"os"
	"strings"
	"testing"
)

func TestRAC_C16(t *testing.T) {
	seed := envInt("VERIF_SEED", 0)
	rep := &racReport{Property: "C16", Seed: seed}
	defer rep.write()
	if devnull, err := os.OpenFile(os.DevNull, os.O_WRONLY, 0); err == nil {
		saved := os.Stdout
		os.Stdout = devnull
		defer func() { os.Stdout = saved }()
	}
	cases := [][2]string{
		{`return [3, 1, 2];`, "ARRAY:[3, 1, 2]"},
		{`return [1, "a", 2.5, true, [4], {"k": 5}];`, "ARRAY:[1, a, 2.5, true, [4], {k: 5}]"},
		{`return 2..5;`, "ARRAY:[2, 3, 4, 5]"},
		{`return 3..3;`, "ARRAY:[3]"},
		{`return -2..1;`, "ARRAY:[-2, -1, 0, 1]"},
		{`return len(1..100);`, "INTEGER:100"},
		{`return 5..2;`, "error"},
		{`a = [10, 20, 30]; return [a[0], a[2], a[3], a[-1], a[100]];`, "ARRAY:[10, 30, null, null, null]"},
		{`s = "héλlo"; return [s[0], s[1], s[2], s[4], s[5], s[-1]];`, "ARRAY:[h, é, λ, o, null, null]"},
		{`return len("héλlo");`, "INTEGER:5"},
		{`return len([]);`, "INTEGER:0"},
		{`return len({"a": 1, "b": 2});`, "INTEGER:2"},
		{`h = {1: "int", "1": "str", 1.5: "flt", "x": "y"}; return [h[1], h["1"], h[1.5], h["x"], h[2], h["nope"], h[1.0]];`, "ARRAY:[int, str, flt, y, null, null, null]"},
		{`h = {"a": 1, "b c": 2, "1": 3}; return [h.a, h."a", h."b c", h.1, h.zz];`, "ARRAY:[1, 1, 2, 3, null]"},
		{`return [2 in [1, 2, 3], 4 in [1, 2, 3], "2" in [1, 2, 3], "b" in "abc", "d" in "abc", "" in "abc", 2.0 in [1, 2, 3]];`, "ARRAY:[true, false, false, true, false, true, false]"},
		{`n = 0; foreach x in [5, 6, 7] { n = n * 10 + x; } return n;`, "INTEGER:567"},
		{`s = ""; foreach i, x in [5, 6, 7] { s = s + string(i) + ":" + string(x) + " "; } return s;`, "STRING:0:5 1:6 2:7 "},
		{`s = ""; foreach c in "héλ" { s = c + s; } return s;`, "STRING:λéh"},
		{`s = ""; foreach i, c in "ab" { s = s + string(i) + c; } return s;`, "STRING:0a1b"},
		{`s = ""; foreach k, v in {"b": 2, "a": 1, "c": 3} { s = s + k + string(v); } return s;`, "STRING:a1b2c3"},
		{`s = ""; foreach k in {"b": 2, "a": 1} { s = s + string(k); } return s;`, "STRING:12"},
		{`n = 0; foreach x in 1..4 { n = n + x; } return n;`, "INTEGER:10"},
		{`n = 0; foreach x in [] { n++; } foreach y in "" { n++; } foreach z in {} { n++; } return n;`, "INTEGER:0"},
		{`a = [1, 2, 3]; n = 0; foreach x in a { n++; } foreach x in a { n++; } return n;`, "INTEGER:6"},
		{`return keys({"b": 1, "a": 2, "c": 3});`, "ARRAY:[a, b, c]"},
		{`return [1, 2][0..1];`, "error"},
		{`return 5[0];`, "error"},
		{`return [1, 2]["a"];`, "error"},
		{`return {"a": 1}[[1]];`, "error"},
		{`a = [[1, 2], [3, 4]]; return [a[1][0], a[0][1], a[2], len(a[0])];`, "ARRAY:[3, 2, null, 2]"},
		{"h = {\"\t\": \"tab\", \"\\\\t\": \"bs\", \"\n\": \"nl\", \"\\\\n\": \"bsn\"}; return [len(h), h[\"\t\"], h[\"\\\\t\"], h[\"\n\"], h[\"\\\\n\"]];", "ARRAY:[4, tab, bs, nl, bsn]"},
		{`a = [80, 443]; b = ["80", "443"]; return [type(a[0]), type(b[0]), "443" in b, 443 in b, 443 in a, "443" in a];`, "ARRAY:[integer, string, true, false, true, false]"},
		{`a = [1]; b = [1.0]; c = [true]; d = ["true"]; return [type(a[0]), type(b[0]), type(c[0]), type(d[0])];`, "ARRAY:[integer, float, boolean, string]"},
		{`a = ["x", "y"]; b = ["x, y"]; return [len(a), len(b)];`, "ARRAY:[2, 1]"},
		{`n = 0; foreach x in [1, 2, 3] { foreach y in [1, 2, 3] { n++; } } return n;`, "INTEGER:9"},
		{`n = 0; foreach x in 1..3 { foreach y in 1..3 { n++; } } return n;`, "INTEGER:9"},
		{`return [L[0], L[1], L[2], L[3], len(L), S[1], len(S), H["b"], H.a, len(H)];`, "ARRAY:[3, 1, 2, null, 3, b, 3, 2, 1, 3]"},
	}
	add := func(kind, script, input, want, got string) {
		if len(rep.Violations) < 16 {
			rep.Violations = append(rep.Violations, racVio{Kind: kind, Script: script, Input: input, Expected: want, Got: got})
		}
	}
	run := func(src string, optimize bool) string {
		re, err := newRacEval(src, optimize)
		if err != nil {
			return "rejected: " + err.Error()
		}
		obj, _, _ := racObject(5, 2)
		out, err := re.e.Execute(obj)
		if err != nil {
			return "error"
		}
		return showObj(out)
	}
	for _, c := range cases {
		for _, optimize := range []bool{true, false} {
			rep.Programs++
			rep.Runs++
			rep.count(c[0])
			if got := run(c[0], optimize); got != c[1] {
				add("container", c[0], fmt.Sprintf("optimize=%v", optimize), c[1], got)
			}
		}
	}
	// randomised: indices into arrays and strings, ranges, membership
	r := rand.New(rand.NewSource(int64(seed) + 16000))
	words := []string{"", "a", "héλlo", "abc", "λλ", "x y"}
	for i := 0; i < 300*envInt("RAC_N", 1); i++ {
		n := r.Intn(6)
		var items, parts []string
		for j := 0; j < n; j++ {
			v := r.Intn(7) - 2
			items = append(items, fmt.Sprint(v))
			parts = append(parts, fmt.Sprint(v))
		}
		idx := r.Intn(10) - 3
		want := "NULL:null"
		if idx >= 0 && idx < n {
			want = "INTEGER:" + parts[idx]
		}
		src := fmt.Sprintf("a = [%s]; return a[%d];", strings.Join(items, ", "), idx)
		w := words[r.Intn(len(words))]
		rs := []rune(w)
		widx := r.Intn(8) - 2
		wantS := "NULL:null"
		if widx >= 0 && widx < len(rs) {
			wantS = "STRING:" + string(rs[widx])
		}
		srcS := fmt.Sprintf("s = %q; return s[%d];", w, widx)
		lo, hi := r.Intn(12)-4, r.Intn(12)-4
		wantR := "error"
		if lo <= hi {
			var xs []string
			for k := lo; k <= hi; k++ {
				xs = append(xs, fmt.Sprint(k))
			}
			wantR = "ARRAY:[" + strings.Join(xs, ", ") + "]"
		}
		srcR := fmt.Sprintf("lo = %d; hi = %d; return lo..hi;", lo, hi)
		probe := r.Intn(7) - 2
		in := false
		for _, p := range parts {
			if p == fmt.Sprint(probe) {
				in = true
			}
		}
		srcI := fmt.Sprintf("return %d in [%s];", probe, strings.Join(items, ", "))
		for _, c := range [][2]string{{src, want}, {srcS, wantS}, {srcR, wantR}, {srcI, fmt.Sprintf("BOOLEAN:%v", in)}} {
			optimize := i%2 == 0
			rep.Programs++
			rep.Runs++
			if got := run(c[0], optimize); got != c[1] {
				add("container", c[0], fmt.Sprintf("optimize=%v", optimize), c[1], got)
			}
		}
	}
	for _, v := range rep.Violations {
		t.Logf("RAC-VIOLATION kind=%s script=%q input=%s expected %s got %s", v.Kind, v.Script, v.Input, v.Expected, v.Got)
	}
}
