//go:build verif

package evalfilter

// Bounded support for C17: the parts of the built-ins' documented behaviour which the contracts leave
// undecided because strings, floats and the host's time library are uninterpreted in the verifier:
//   - hour/minute/seconds/day/month/year/weekday against the host's time package, over a grid of
//     instants x time-zones (whole-hour, half-hour, 45-minute, historical sub-minute offsets, DST);
//   - sort/reverse of string arrays: an ordered permutation (optionally case-insensitive), input unchanged;
//   - join(split(s, d), d) == s;
//   - min/max/between against the language's own comparison operators.

import (
	"fmt"
	"math/rand"
	"os"
	"sort"
	"strconv"
	"strings"
	"testing"
	"time"

	"github.com/skx/evalfilter/v2/object"
)

func c17Run(src string, obj interface{}) (string, error) {
	e := New(src)
	if err := e.Prepare(); err != nil {
		return "", err
	}
	out, err := e.Execute(obj)
	if err != nil {
		return "", err
	}
	return showObj(out), nil
}

func quoteScript(s string) string {
	// a string literal of the language: backslash and the quote are escaped, newline/tab written as escapes
	r := strings.NewReplacer("\\", "\\\\", "\"", "\\\"", "\n", "\\n", "\t", "\\t", "\r", "\\r")
	return "\"" + r.Replace(s) + "\""
}

func TestRAC_C17(t *testing.T) {
	seed := envInt("VERIF_SEED", 0)
	rep := &racReport{Property: "C17", Seed: seed}
	defer rep.write()
	if devnull, err := os.OpenFile(os.DevNull, os.O_WRONLY, 0); err == nil {
		saved := os.Stdout
		os.Stdout = devnull
		defer func() { os.Stdout = saved }()
	}
	r := rand.New(rand.NewSource(int64(seed) + 17000))
	n := envInt("RAC_N", 1)
	add := func(kind, script, input, want, got string) {
		if len(rep.Violations) < 16 {
			rep.Violations = append(rep.Violations, racVio{Kind: kind, Script: script, Input: input, Expected: want, Got: got})
		}
	}

	// ---- time fields
	zones := []string{"", "UTC", "Africa/Monrovia", "Europe/Amsterdam", "Asia/Kolkata", "Asia/Kathmandu", "America/New_York", "Australia/Lord_Howe", "Pacific/Apia", "Europe/London", "America/St_Johns", "Asia/Tokyo"}
	instants := []int64{-2147483648, -1000000000, -86401, -86400, -61, -60, -1, 0, 1, 59, 60, 61, 3599, 3600, 86399, 86400, 1000000, 63593069, 63593070, 951782399, 951782400, 1000000000, 1234567890,
		1711846799, 1711846800, 1730595600, 2147483647, 2147483648, 4102444800, -1188, -1172, -2208988800, -1693785600}
	for i := 0; i < 60*n; i++ {
		instants = append(instants, r.Int63n(8000000000)-3000000000)
	}
	savedTZ, hadTZ := os.LookupEnv("TZ")
	defer func() {
		if hadTZ {
			os.Setenv("TZ", savedTZ)
		} else {
			os.Unsetenv("TZ")
		}
	}()
	timeSrc := "return [hour(T), minute(T), seconds(T), day(T), month(T), year(T), weekday(T)];"
	te := New(timeSrc)
	if err := te.Prepare(); err != nil {
		add("time-fields", timeSrc, "", "accepted", err.Error())
	} else {
		for _, z := range zones {
			name := z
			if name == "" {
				name = "UTC"
			}
			loc, err := time.LoadLocation(name)
			if err != nil {
				rep.Notes = append(rep.Notes, "zone not installed on this host, skipped: "+z)
				continue
			}
			os.Setenv("TZ", z)
			for _, x := range instants {
				rep.Runs++
				ts := time.Unix(x, 0).In(loc)
				h, m, s := ts.Clock()
				y, mo, d := ts.Date()
				want := fmt.Sprintf("ARRAY:[%d, %d, %d, %d, %d, %d, %s]", h, m, s, d, int(mo), y, ts.Weekday().String())
				got := "error"
				if out, err := te.Execute(map[string]interface{}{"T": x}); err == nil {
					got = showObj(out)
				}
				if got != want {
					add("time-fields", timeSrc, fmt.Sprintf("T=%d TZ=%q", x, z), want, got)
				}
			}
		}
	}
	rep.Programs++
	rep.count(timeSrc)

	// ---- sort / reverse on string arrays
	words := []string{"b", "a", "B", "A", "ab", "Ab", "aB", "", "z", "Z", "10", "9", "é", "É", "a b", " a", "steve", "Steve", "STEVE", "kemp"}
	for i := 0; i < 150*n; i++ {
		k := r.Intn(7)
		arr := make([]string, k)
		for j := range arr {
			arr[j] = words[r.Intn(len(words))]
		}
		for _, fn := range []string{"sort(A)", "sort(A, true)", "sort(A, false)", "reverse(A)", "reverse(A, true)"} {
			src := "r = " + fn + "; return [r, A];"
			rep.Runs++
			e := New(src)
			if err := e.Prepare(); err != nil {
				add("sort", src, "", "accepted", err.Error())
				continue
			}
			out, err := e.Execute(map[string]interface{}{"A": arr})
			if err != nil {
				add("sort", src, fmt.Sprintf("A=%q", arr), "a result", "error: "+err.Error())
				continue
			}
			pair, ok := out.(*object.Array)
			if !ok || len(pair.Elements) != 2 {
				add("sort", src, fmt.Sprintf("A=%q", arr), "a pair", showObj(out))
				continue
			}
			res, ok1 := pair.Elements[0].(*object.Array)
			in, ok2 := pair.Elements[1].(*object.Array)
			if !ok1 || !ok2 {
				add("sort", src, fmt.Sprintf("A=%q", arr), "two arrays", showObj(out))
				continue
			}
			strs := func(a *object.Array) []string {
				var o []string
				for _, x := range a.Elements {
					o = append(o, string(x.Type())+":"+x.Inspect())
				}
				return o
			}
			var inWant []string
			for _, s := range arr {
				inWant = append(inWant, "STRING:"+s)
			}
			if fmt.Sprint(strs(in)) != fmt.Sprint(inWant) {
				add("sort-changes-its-input", src, fmt.Sprintf("A=%q", arr), fmt.Sprint(inWant), fmt.Sprint(strs(in)))
			}
			a1, a2 := strs(res), append([]string{}, inWant...)
			sort.Strings(a1)
			sort.Strings(a2)
			if fmt.Sprint(a1) != fmt.Sprint(a2) {
				add("sort-not-a-permutation", src, fmt.Sprintf("A=%q", arr), "a permutation of the input", fmt.Sprint(strs(res)))
				continue
			}
			ci := strings.Contains(fn, "true")
			rev := strings.HasPrefix(fn, "reverse")
			for j := 0; j+1 < len(res.Elements); j++ {
				x, y := res.Elements[j].Inspect(), res.Elements[j+1].Inspect()
				if ci {
					x, y = strings.ToLower(x), strings.ToLower(y)
				}
				if (!rev && x > y) || (rev && x < y) {
					add("sort-not-ordered", src, fmt.Sprintf("A=%q", arr), "ordered", fmt.Sprint(strs(res)))
					break
				}
			}
		}
	}
	rep.Programs += 5

	// ---- join(split(s, d), d) == s
	subjects := []string{"", "a", "a,b", "a,b,c", ",a", "a,", ",", ",,", "a,,b", "héllo wörld", "a b  c", "λ,μ", "one two", "a\tb", "x--y--z", "--", "abc", "a\xffb", "\xc3", "x\xe2\x82", "é\xff,λ"}
	delims := []string{",", " ", "--", "", "b", "λ", ",,"}
	for _, s := range subjects {
		for _, d := range delims {
			src := "return join(split(S, D), D);"
			rep.Runs++
			got, err := c17Run(src, map[string]interface{}{"S": s, "D": d})
			if err != nil {
				got = "error: " + err.Error()
			}
			if got != "STRING:"+s {
				add("join-split", src, fmt.Sprintf("S=%q D=%q", s, d), "STRING:"+s, got)
			}
		}
	}
	rep.Programs++

	// ---- min / max / between against the language's own operators
	nums := []string{"0", "1", "-1", "2", "10", "9", "1.0", "1.5", "-1.5", "0.0", "2.5", "100", "-100", "9.99", "10.01", "70000", "0.1"}
	for _, a := range nums {
		for _, b := range nums {
			src := fmt.Sprintf("a = %s; b = %s; return [min(a, b), max(a, b), a <= b ? a : b, a >= b ? a : b, a == b];", a, b)
			rep.Runs++
			e := New(src)
			if err := e.Prepare(); err != nil {
				add("min-max", src, "", "accepted", err.Error())
				continue
			}
			out, err := e.Execute(nil)
			arr, ok := out.(*object.Array)
			if err != nil || !ok || len(arr.Elements) != 5 {
				add("min-max", src, "", "five values", fmt.Sprint(out, err))
				continue
			}
			// for numerically equal arguments either one is the smaller / larger
			if arr.Elements[4].Inspect() != "true" {
				if showObj(arr.Elements[0]) != showObj(arr.Elements[2]) || showObj(arr.Elements[1]) != showObj(arr.Elements[3]) {
					add("min-max", src, "", "min/max agree with <= and >=", showObj(out))
				}
			} else {
				fa, _ := strconv.ParseFloat(arr.Elements[0].Inspect(), 64)
				fb, _ := strconv.ParseFloat(arr.Elements[2].Inspect(), 64)
				fc, _ := strconv.ParseFloat(arr.Elements[1].Inspect(), 64)
				if fa != fb || fc != fb {
					add("min-max", src, "", "min/max agree with <= and >=", showObj(out))
				}
			}
		}
	}
	for i := 0; i < 400*n; i++ {
		v, lo, hi := nums[r.Intn(len(nums))], nums[r.Intn(len(nums))], nums[r.Intn(len(nums))]
		src := fmt.Sprintf("v = %s; lo = %s; hi = %s; return [between(v, lo, hi), lo <= v && v <= hi];", v, lo, hi)
		rep.Runs++
		got, err := c17Run(src, nil)
		if err != nil || (got != "ARRAY:[true, true]" && got != "ARRAY:[false, false]") {
			add("between", src, "", "between(v, lo, hi) is lo <= v && v <= hi", got+fmt.Sprint(err))
		}
	}
	rep.Programs += 2

	// ---- a call gives the same answer however often, and on whichever evaluator, it is made
	for _, src := range []string{
		`return replace("a(b", "abc(", "x");`, `return match("abc", "ab(");`, `return replace(S, "b+", "-");`, `return match(S, "^a");`, `return S ~= /b/;`, `return [min(3, 2.5), max("10", "9"), between(2, 1, 3)];`,
		`return sort(["b", "a", "C"], true);`, `return join(split("a,b,,c", ","), "|");`, `return [lower("ÀB"), upper("straße"), trim("  x ")];`, `return [int("42"), int("x"), float("1.5"), float("y"), string(3.0), type(1.0)];`,
		`return [len("héllo"), len([1, 2]), len({"a": 1})];`, `return sprintf("%d-%s-%5.2f", 7, "s", 2.5);`, `return keys({"b": 1, "a": 2});`, `return reverse([3, 1, 2]);`,
	} {
		var first string
		e := New(src)
		if err := e.Prepare(); err != nil {
			add("repeatable", src, "", "accepted", err.Error())
			continue
		}
		for i := 0; i < 4; i++ {
			x := e
			if i == 3 {
				x = New(src) // a freshly prepared evaluator, in a process that has seen the call before
				x.Prepare()
			}
			rep.Runs++
			got := "error"
			if out, err := x.Execute(map[string]interface{}{"S": "abba"}); err == nil {
				got = showObj(out)
			}
			if i == 0 {
				first = got
			} else if got != first {
				add("repeatable", src, fmt.Sprintf("call %d (the fourth is on a fresh evaluator)", i+1), first, got)
			}
		}
		rep.Programs++
	}

	// ---- many distinct patterns in one process: each still means itself, also when it comes round again
	done := make(chan bool, 1)
	go func() {
		me := New(`return [match(Host, Pattern), match(Other, Pattern), Host ~= /^host-7$/];`)
		if err := me.Prepare(); err != nil {
			add("many-patterns", "match(Host, Pattern)", "", "accepted", err.Error())
			done <- true
			return
		}
		check := func(i int) {
			rep.Runs++
			got := "error"
			if out, err := me.Execute(map[string]interface{}{"Host": fmt.Sprintf("host-%d", i), "Other": fmt.Sprintf("host-%d", i+1), "Pattern": fmt.Sprintf("^host-%d$", i)}); err == nil {
				got = showObj(out)
			}
			want := fmt.Sprintf("ARRAY:[true, false, %v]", i == 7)
			if got != want {
				add("many-patterns", "return [match(Host, Pattern), match(Other, Pattern), Host ~= /^host-7$/];", fmt.Sprintf("pattern number %d of 1500 distinct ones (second round: after all 1500)", i), want, got)
			}
		}
		for i := 0; i < 1500; i++ {
			check(i)
		}
		for i := 0; i < 1500; i += 7 {
			check(i)
		}
		done <- true
	}()
	select {
	case <-done:
	case <-time.After(60 * time.Second):
		add("many-patterns", "return [match(Host, Pattern), ...];", "1500 distinct patterns", "every call returns", "no return within 60 s: a lock left held")
	}
	rep.Programs++
	for _, v := range rep.Violations {
		t.Logf("RAC-VIOLATION kind=%s script=%q input=%s expected %s got %s", v.Kind, v.Script, v.Input, v.Expected, v.Got)
	}
}
