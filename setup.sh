#!/bin/sh
# builds the verifier from files on disk only (offline)
set -e
export GOFLAGS=-mod=mod GOPROXY=off GOSUMDB=off GOTOOLCHAIN=local
cd /verif/govc 2>/dev/null || exit 0
go build -o /verif/bin/govc .
